import NeverModel.Model.Src
import NeverModel.Model.SrcMod
import Driver.Util
open Never Never.Src Drv
namespace SrcDrv

/-! s-expression reader for the program generator's AST, and the `nmdrv src` protocol:
    stdin  : `run <id> <fuel> <arg>...` then one line holding the program s-expression
             (arg = i:<int> | f:<float bits> | s:<hex>)
    stdout : `RESULT <id> <kind> <value> out=<hex> clos=<n,n,...>` -/

inductive SX
  | atom (s : String)
  | list (xs : List SX)
  deriving Inhabited

partial def tokenize (s : String) : Array String := Id.run do
  let mut toks : Array String := #[]
  let mut cur : String := ""
  for c in s.toList do
    if c == '(' || c == ')' then
      if cur ≠ "" then toks := toks.push cur; cur := ""
      toks := toks.push (String.singleton c)
    else if c == ' ' || c == '\n' || c == '\t' || c == '\r' then
      if cur ≠ "" then toks := toks.push cur; cur := ""
    else cur := cur.push c
  if cur ≠ "" then toks := toks.push cur
  return toks

partial def parseSX (toks : Array String) (i : Nat) : Option (SX × Nat) :=
  match toks[i]? with
  | none => none
  | some "(" =>
    let rec go (j : Nat) (acc : Array SX) : Option (SX × Nat) :=
      match toks[j]? with
      | none => none
      | some ")" => some (.list acc.toList, j + 1)
      | some _ =>
        match parseSX toks j with
        | some (x, j') => go j' (acc.push x)
        | none => none
    go (i + 1) #[]
  | some ")" => none
  | some a => some (.atom a, i + 1)

def nm (s : String) : Name := if s = "-" then "" else s

def tyOf : String → Except String Ty
  | "bool" => pure .bool | "int" => pure .int | "long" => pure .long | "float" => pure .float
  | "double" => pure .double | "char" => pure .char | "string" => pure .string | "enum" => pure .enumT
  | "arr" => pure .arr | "rec" => pure .rcd | "func" => pure .func
  | "rng" => pure .rng | "slc" => pure .slc
  | s => throw s!"bad type {s}"

def binOf : String → Except String BinOp
  | "add" => pure .add | "sub" => pure .sub | "mul" => pure .mul | "div" => pure .div | "mod" => pure .mod
  | "lt" => pure .lt | "gt" => pure .gt | "le" => pure .le | "ge" => pure .ge | "eq" => pure .eq | "ne" => pure .ne
  | "band" => pure .band | "bor" => pure .bor | "bxor" => pure .bxor | "shl" => pure .shl | "shr" => pure .shr
  | s => throw s!"bad binop {s}"

def unOf : String → Except String UnOp
  | "neg" => pure .neg | "not" => pure .not | "bnot" => pure .bnot
  | s => throw s!"bad unop {s}"

def builtinOf : String → Except String Builtin
  | "print" => pure .print | "printl" => pure .printl | "printb" => pure .printb | "printf" => pure .printf
  | "printd" => pure .printd | "printc" => pure .printc | "prints" => pure .prints | "assert" => pure .assert
  | "assertf" => pure .assertf | "length" => pure .length | "ord" => pure .ord | "chr" => pure .chr
  | "sqrt" => pure .sqrt | "str" => pure .str | "strf" => pure .strf
  | s => throw s!"bad builtin {s}"

def intOf (s : String) : Except String Int :=
  match s.toInt? with
  | some i => pure i
  | none => throw s!"bad int {s}"

def natOf (s : String) : Except String Nat :=
  match s.toNat? with
  | some i => pure i
  | none => throw s!"bad nat {s}"

def atomOf : SX → Except String String
  | .atom a => pure a
  | _ => throw "atom expected"

def fieldsOf (xs : List SX) : Except String (List (Name × Ty)) :=
  xs.mapM fun x => match x with
    | .list [.atom "f", .atom n, .atom t] => do pure (n, ← tyOf t)
    | _ => throw "bad field"

mutual
partial def exprOf : SX → Except String Expr
  | .list [.atom "int", .atom n] => do pure (.lit (.int (← intOf n)))
  | .list [.atom "long", .atom n] => do pure (.lit (.long (← intOf n)))
  | .list [.atom "float", .atom n] => do pure (.lit (.float (← natOf n)))
  | .list [.atom "double", .atom n] => do pure (.lit (.double (← natOf n)))
  | .list [.atom "char", .atom n] => do pure (.lit (.char (← natOf n)))
  | .list [.atom "str", .atom h] => pure (.lit (.str (unhex h)))
  | .list [.atom "str"] => pure (.lit (.str []))
  | .list [.atom "bool", .atom n] => pure (.lit (.bool (n = "1")))
  | .list [.atom "nil"] => pure (.lit .nil)
  | .list [.atom "var", .atom x] => pure (.var x)
  | .list [.atom "dimvar", .atom x] => pure (.dimVar x)
  | .list [.atom "un", .atom o, a] => do pure (.un (← unOf o) (← exprOf a))
  | .list [.atom "bin", .atom o, a, b] => do pure (.bin (← binOf o) (← exprOf a) (← exprOf b))
  | .list [.atom "and", a, b] => do pure (.and (← exprOf a) (← exprOf b))
  | .list [.atom "or", a, b] => do pure (.or (← exprOf a) (← exprOf b))
  | .list [.atom "cond", c, t, e] => do pure (.cond (← exprOf c) (← exprOf t) (← exprOf e))
  | .list [.atom "assign", l, r] => do pure (.assign (← exprOf l) (← exprOf r))
  | .list (.atom "seq" :: items) => do pure (.seq (← items.mapM itemOf))
  | .list [.atom "while", c, b] => do pure (.while (← exprOf c) (← exprOf b))
  | .list [.atom "dowhile", b, c] => do pure (.doWhile (← exprOf b) (← exprOf c))
  | .list [.atom "for", i, c, s, b] => do pure (.for (← exprOf i) (← exprOf c) (← exprOf s) (← exprOf b))
  | .list [.atom "forin", .atom x, c, b] => do pure (.forIn x (← exprOf c) (← exprOf b))
  | .list (.atom "call" :: f :: args) => do pure (.call (← exprOf f) (← args.mapM exprOf))
  | .list (.atom "builtin" :: .atom b :: args) => do pure (.builtin (← builtinOf b) (← args.mapM exprOf))
  | .list [.atom "lam", f] => do pure (.lam (← funcOf f))
  | .list (.atom "arrlit" :: .list (.atom "dims" :: ds) :: .atom t :: elems) => do
    pure (.arrLit (← ds.mapM (fun d => do natOf (← atomOf d))) (← elems.mapM exprOf) (← tyOf t))
  | .list (.atom "arrnew" :: .atom t :: ds) => do pure (.arrNew (← ds.mapM exprOf) (← tyOf t))
  | .list (.atom "index" :: a :: idx) => do pure (.index (← exprOf a) (← idx.mapM exprOf))
  | .list (.atom "record" :: .atom n :: args) => do pure (.record n (← args.mapM exprOf))
  | .list (.atom "tuple" :: args) => do pure (.tuple (← args.mapM exprOf))
  | .list [.atom "field", e, .atom n] => do pure (.field (← exprOf e) n)
  | .list [.atom "enumval", .atom en, .atom it] => pure (.enumVal en it)
  | .list (.atom "enumrec" :: .atom en :: .atom it :: args) => do pure (.enumRec en it (← args.mapM exprOf))
  | .list (.atom "match" :: e :: gs) => do pure (.matchE (← exprOf e) (← gs.mapM guardOf))
  | .list [.atom "iflet", g, e, els] => do pure (.ifLet (← guardOf g) (← exprOf e) (← exprOf els))
  | .list (.atom "listcomp" :: .atom t :: body :: qs) => do
    pure (.listcomp (← exprOf body) (← qs.mapM qualOf) (← tyOf t))
  | .list (.atom "pipe" :: l :: f :: args) => do pure (.pipe (← exprOf l) (← exprOf f) (← args.mapM exprOf))
  | .list (.atom "range" :: bounds) => do pure (.range (← bounds.mapM exprOf))
  | .list (.atom "slice" :: a :: bounds) => do pure (.slice (← exprOf a) (← bounds.mapM exprOf))
  | .list (.atom a :: _) => throw s!"bad expression form {a}"
  | _ => throw "bad expression"
partial def itemOf : SX → Except String Item
  | .list [.atom "let", .atom x, e] => do pure (.bind false x (← exprOf e))
  | .list [.atom "varb", .atom x, e] => do pure (.bind true x (← exprOf e))
  | .list (.atom "funcs" :: fs) => do pure (.funcs (← fs.mapM funcOf))
  | .list [.atom "e", e] => do pure (.expr (← exprOf e))
  | _ => throw "bad seq item"
partial def funcOf : SX → Except String Func
  | .list [.atom "func", .atom id, .atom n, .list (.atom "params" :: ps), .atom rt, body, .list (.atom "catches" :: cs)] => do
    let ps' ← ps.mapM fun p => match p with
      | .list (.atom "p" :: .atom pn :: .atom pt :: ds) => do
        pure ({ name := pn, ty := ← tyOf pt, dims := ← ds.mapM atomOf } : Param)
      | _ => throw "bad param"
    let cs' ← cs.mapM fun c => match c with
      | .list [.atom "catch", .atom "*", b] => do pure (Catch.mk none (← exprOf b))
      | .list [.atom "catch", .atom e, b] =>
        match Exc.ofName e with
        | some ex => do pure (Catch.mk (some ex) (← exprOf b))
        | none => throw s!"bad exception {e}"
      | _ => throw "bad catch"
    pure (.mk (← natOf id) (nm n) ps' (← tyOf rt) (← exprOf body) cs')
  | _ => throw "bad func"
partial def guardOf : SX → Except String Guard
  | .list [.atom "gitem", .atom en, .atom it, b] => do pure (.item en it (← exprOf b))
  | .list [.atom "grec", .atom en, .atom it, .list (.atom "binds" :: xs), b] => do
    pure (.recd en it (← xs.mapM atomOf) (← exprOf b))
  | .list [.atom "gelse", b] => do pure (.els (← exprOf b))
  | _ => throw "bad guard"
partial def qualOf : SX → Except String Qual
  | .list [.atom "gen", .atom x, c] => do pure (.gen x (← exprOf c))
  | .list [.atom "filter", e] => do pure (.filter (← exprOf e))
  | _ => throw "bad qualifier"
end

def recsOf (rs : List SX) : Except String (List RecDecl) :=
  rs.mapM fun r => match r with
    | .list (.atom "rec" :: .atom n :: flds) => do pure ({ name := n, fields := ← fieldsOf flds } : RecDecl)
    | _ => throw "bad record decl"

def enumsOf (es : List SX) : Except String (List EnumDecl) :=
  es.mapM fun e => match e with
    | .list (.atom "enum" :: .atom n :: items) => do
      let its ← items.mapM fun it => match it with
        | .list [.atom "item", .atom i, .atom v] => do pure ({ name := i, value := ← intOf v, fields := none } : EnumItem)
        | .list (.atom "item" :: .atom i :: .atom v :: .list [.atom "payload"] :: flds) => do
          pure ({ name := i, value := ← intOf v, fields := some (← fieldsOf flds) } : EnumItem)
        | _ => throw "bad enum item"
      pure ({ name := n, items := its } : EnumDecl)
    | _ => throw "bad enum decl"

def progOf : SX → Except String Prog
  | .list [.atom "prog", .list (.atom "recs" :: rs), .list (.atom "enums" :: es), .list (.atom "funcs" :: fs)] => do
    pure { recs := ← recsOf rs, enums := ← enumsOf es, funcs := ← fs.mapM funcOf }
  | _ => throw "bad prog"

/-- `(unit name (uses n…) (recs …) (enums …) (items item…))` -/
def unitOf : SX → Except String Mod.Unit
  | .list [.atom "unit", .atom n, .list (.atom "uses" :: us), .list (.atom "recs" :: rs), .list (.atom "enums" :: es),
      .list (.atom "items" :: its)] => do
    pure { name := nm n, uses := ← us.mapM atomOf, recs := ← recsOf rs, enums := ← enumsOf es, items := ← its.mapM itemOf }
  | _ => throw "bad unit"

/-- a program: `(prog …)` (one core program) or `(units main-unit unit…)` (elaborated by `Never.Src.Mod.elaborate`;
`none` = refused: a `use` cycle / no main) -/
def programOf : SX → Except String (Option Prog)
  | .list (.atom "units" :: m :: us) => do
    let mu ← unitOf m
    let us' ← us.mapM unitOf
    pure (if Mod.cyclic us' mu then none else Mod.elaborate mu us')
  | sx => do pure (some (← progOf sx))

def valStr : Val → String
  | .int v => s!"int:{v.toInt}"
  | .long v => s!"long:{v.toInt}"
  | .float v => s!"float:{v.toBits.toNat}"
  | .double v => s!"double:{v.toBits.toNat}"
  | .char c => s!"char:{signedChar c}"
  | .str (some s) => s!"str:{hexBytes s}"
  | .str none | .arr none | .rcd none | .clo none | .rng none | .slc none => "nil"
  | .clo _ => "func"
  | _ => "ref"

def argOf (w : String) : Arg :=
  if w.startsWith "i:" then .int ((w.drop 2).toInt?.getD 0)
  else if w.startsWith "f:" then .float ((w.drop 2).toNat?.getD 0)
  else .str (unhex (w.drop 2).toString)

def raisedOf (r : Res Loc) : String :=
  match r with
  | .ok _ s | .exc _ s | .stop _ s => joinWith "," (s.raised.reverse.map Exc.name)

def outcomeStr (id : String) (o : Outcome) (clos : List Nat) (raised : String) : String :=
  let tail (out : Bytes) := s!"out={hexBytes out} clos={natList clos} raised={raised}"
  match o with
  | .result v out => s!"RESULT {id} ok {valStr v} {tail out}"
  | .unhandled e out => s!"RESULT {id} unhandled {e.name} {tail out}"
  | .assertFailed out => s!"RESULT {id} assert - {tail out}"
  | .outOfFuel out => s!"RESULT {id} outoffuel - {tail out}"
  | .crash m out => s!"RESULT {id} crash {m.replace " " "_"} {tail out}"
  | .stuck m out => s!"RESULT {id} stuck {m.replace " " "_"} {tail out}"

def depthIn (x : Name) : List Name → Option Nat
  | [] => none
  | y :: bs => if x = y then some bs.length else depthIn x bs

mutual
/-- every function with the static name stack at its definition (driver-side twin of `collectE`
that keeps the `Func`, for the environment-vector sizes) -/
partial def funsE (bs : List Name) : Expr → List (List Name × Func)
  | .lit _ | .var _ | .enumVal _ _ | .dimVar _ => []
  | .un _ a => funsE bs a
  | .bin _ a b | .and a b | .or a b | .assign a b | .while a b | .doWhile a b => funsE bs a ++ funsE bs b
  | .cond c t e => funsE bs c ++ funsE bs t ++ funsE bs e
  | .seq items => funsItems bs items
  | .for i c s b => funsE bs i ++ funsE bs c ++ funsE bs s ++ funsE bs b
  | .forIn x coll b => funsE bs coll ++ funsE (x :: bs) b
  | .call f args => funsEs bs args ++ funsE bs f
  | .pipe l f args => funsEs bs args ++ funsE bs l ++ funsE bs f
  | .builtin _ args | .arrLit _ args _ | .arrNew args _ | .record _ args | .tuple args
  | .enumRec _ _ args | .range args => funsEs bs args
  | .lam fn => funsF (if fn.name = "" then bs else fn.name :: bs) fn
  | .index a idx | .slice a idx => funsE bs a ++ funsEs bs idx
  | .field e _ => funsE bs e
  | .matchE e gs => funsE bs e ++ (gs.map (funsG bs)).flatten
  | .ifLet g e els => funsE bs e ++ funsG bs g ++ funsE bs els
  | .listcomp body quals _ => funsQ bs quals body
partial def funsEs (bs : List Name) (es : List Expr) : List (List Name × Func) := (es.map (funsE bs)).flatten
partial def funsItems (bs : List Name) : List Item → List (List Name × Func)
  | [] => []
  | .expr e :: rest => funsE bs e ++ funsItems bs rest
  | .bind _ x e :: rest => funsE bs e ++ funsItems (x :: bs) rest
  | .funcs fs :: rest =>
    let bs' := (funcNames fs).reverse ++ bs
    (fs.map (funsF bs')).flatten ++ funsItems bs' rest
partial def funsF (bs : List Name) (fn : Func) : List (List Name × Func) :=
  let bs' := (paramBinders fn.params).reverse ++ bs
  (bs, fn) :: (funsE bs' fn.body ++ (fn.catches.map (fun c => funsE bs' c.body)).flatten)
partial def funsG (bs : List Name) : Guard → List (List Name × Func)
  | .item _ _ b | .els b => funsE bs b
  | .recd _ _ binds b => funsE (binds.reverse ++ bs) b
partial def funsQ (bs : List Name) : List Qual → Expr → List (List Name × Func)
  | [], body => funsE bs body
  | .filter e :: qs, body => funsE bs e ++ funsQ bs qs body
  | .gen x coll :: qs, body => funsE bs coll ++ funsQ (x :: bs) qs body
end

/-- size of the environment vector the real compiler builds for function `fid`: its free
variables that do not resolve to a top-level function -/
def capturedCount (p : Prog) (fid : Nat) : Nat :=
  match ((p.funcs.map (funsF p.topNames)).flatten).find? (fun e => e.2.id == fid) with
  | some (bs, fn) =>
    ((fv fn).filter (fun x => match depthIn x bs with
      | some d => decide (p.funcs.length ≤ d)
      | none => false)).length
  | none => 0

def closOf (p : Prog) (r : Res Loc) : List Nat :=
  match r with
  | .ok _ s | .exc _ s | .stop _ s => s.clos.reverse.map (capturedCount p)

def main : IO Unit := do
  let stdin ← IO.getStdin
  let stdout ← IO.getStdout
  let _ ← forLines stdin () fun _ line => do
    match words line with
    | "run" :: id :: fuel :: args =>
      let src ← stdin.getLine
      let toks := tokenize src
      match parseSX toks 0 with
      | none => stdout.putStrLn s!"RESULT {id} parse-error sexpr"
      | some (sx, _) =>
        match programOf sx with
        | .error e => stdout.putStrLn s!"RESULT {id} parse-error {e.replace " " "_"}"
        | .ok none => stdout.putStrLn s!"RESULT {id} rejected cyclic_use_or_no_main out= clos= raised="
        | .ok (some p) =>
          let as := args.map argOf
          let fu := fuel.toNat!
          let r := runMain p as fu
          stdout.putStrLn (outcomeStr id (outcomeOf r) (closOf p r) (raisedOf r))
    | _ => stdout.putStrLn "bad-op"
    stdout.flush
  stdout.flush
end SrcDrv
