import NeverModel.Model.Ffi
import Driver.Util
open Never Never.Ffi Drv
namespace FfiDrv

/-! line protocol of `nmdrv ffi` (see harness/h_ffi.c for the C side)

type tokens   : `b i l f d c s p` scalars, `{ … }` record
desc tokens   : `b i l f d c s p v` , `r<count>/<total>` , `x` (any other opcode)
value tokens  : `B<n> I<n> L<n> F<n> D<n> C<n> S<n> Snil P<n>` , `{ … }` record, `N` nil record

ops
  layout T…                      -> layout <sizes of every struct, preorder: size/align> leaves <p@off …>
  emit T… -> R                   -> emit <count> <desc tokens>         (R: type tokens or `v`)
  type COUNT | D…                -> type ok <type tokens> rest <n> sizes <size/align …|bad> | type crash
  pack COUNT | D… | V…           -> pack ret <0/1> rest <n> off <n> bytes <hex> trace <p@off …> | pack crash
  unpack COUNT | D… | HEX        -> unpack <value tokens> rest <n> off <n> trace … | unpack crash
  exec COUNT LIB SYM | D… | V…   -> exec crash | exec ffi_fail <stage> | exec call <args> rest <n>
-/

def primTok : Prim → String
  | .bool => "b" | .int => "i" | .long => "l" | .float => "f" | .double => "d"
  | .char => "c" | .string => "s" | .cptr => "p"

def tokPrim : String → Option Prim
  | "b" => some .bool | "i" => some .int | "l" => some .long | "f" => some .float
  | "d" => some .double | "c" => some .char | "s" => some .string | "p" => some .cptr
  | _ => none

/-- parse a sequence of type tokens up to a closing brace / end; fuel = token count -/
def parseTys : Nat → List String → Option (List FTy × List String)
  | 0, _ => none
  | _ + 1, [] => some ([], [])
  | _ + 1, "}" :: r => some ([], "}" :: r)
  | f + 1, "{" :: r =>
    match parseTys f r with
    | some (fs, "}" :: r1) =>
      match parseTys f r1 with
      | some (ts, r2) => some (.record (FTys.ofList fs) :: ts, r2)
      | none => none
    | _ => none
  | f + 1, t :: r =>
    match tokPrim t with
    | some p =>
      match parseTys f r with
      | some (ts, r2) => some (.prim p :: ts, r2)
      | none => none
    | none => none

def parseTyList (ws : List String) : Option (List FTy) :=
  match parseTys (ws.length + 1) ws with
  | some (ts, []) => some ts
  | _ => none

mutual
def showTy : FTy → List String
  | .prim p => [primTok p]
  | .record fs => "{" :: showTys fs ++ ["}"]
def showTys : FTys → List String
  | .nil => []
  | .cons t ts => showTy t ++ showTys ts
end

def descTok : Desc → String
  | .prim p => primTok p
  | .void => "v"
  | .record c t => s!"r{c}/{t}"
  | .other => "x"

def tokDesc (w : String) : Desc :=
  if w = "v" then .void
  else if w = "x" then .other
  else match tokPrim w with
    | some p => .prim p
    | none =>
      if w.startsWith "r" then
        match (w.drop 1).toString.splitOn "/" with
        | [a, b] => .record a.toNat! b.toNat!
        | _ => .other
      else .other

def parseVals : Nat → List String → Option (List FVal × List String)
  | 0, _ => none
  | _ + 1, [] => some ([], [])
  | _ + 1, "}" :: r => some ([], "}" :: r)
  | f + 1, "{" :: r =>
    match parseVals f r with
    | some (fs, "}" :: r1) =>
      match parseVals f r1 with
      | some (ts, r2) => some (.record (FVals.ofList fs) :: ts, r2)
      | none => none
    | _ => none
  | f + 1, "N" :: r =>
    match parseVals f r with
    | some (ts, r2) => some (.nilrec :: ts, r2)
    | none => none
  | f + 1, "Snil" :: r =>
    match parseVals f r with
    | some (ts, r2) => some (.string none :: ts, r2)
    | none => none
  | f + 1, w :: r =>
    let n := (w.drop 1).toString.toNat!
    let v : Option FVal :=
      match w.front with
      | 'B' => some (.bool n) | 'I' => some (.int n) | 'L' => some (.long n) | 'F' => some (.float n)
      | 'D' => some (.double n) | 'C' => some (.char n) | 'S' => some (.string (some n))
      | 'P' => some (.cptr n) | _ => none
    match v with
    | some v =>
      match parseVals f r with
      | some (ts, r2) => some (v :: ts, r2)
      | none => none
    | none => none

def parseValList (ws : List String) : Option (List FVal) :=
  match parseVals (ws.length + 1) ws with
  | some (vs, []) => some vs
  | _ => none

mutual
def showVal : FVal → List String
  | .bool n => [s!"B{n}"] | .int n => [s!"I{n}"] | .long n => [s!"L{n}"] | .float n => [s!"F{n}"]
  | .double n => [s!"D{n}"] | .char n => [s!"C{n}"] | .string none => ["Snil"]
  | .string (some n) => [s!"S{n}"] | .cptr n => [s!"P{n}"] | .nilrec => ["N"]
  | .record vs => "{" :: showVals vs ++ ["}"]
def showVals : FVals → List String
  | .nil => []
  | .cons v vs => showVal v ++ showVals vs
end

def showTrace (t : List (Prim × Nat)) : String :=
  joinWith " " (t.map fun (p, o) => s!"{primTok p}@{o}")

mutual
/-- size/align of every struct inside, preorder -/
def structSizes : FTy → List String
  | .prim _ => []
  | .record fs => s!"{cSize (.record fs)}/{cAlignF fs}" :: structSizesF fs
def structSizesF : FTys → List String
  | .nil => []
  | .cons t ts => structSizes t ++ structSizesF ts
end

def splitBar (ws : List String) : List (List String) :=
  let rec go (acc cur : List String) : List String → List (List String) × List String
    | [] => ([], cur.reverse)
    | "|" :: r => let (gs, l) := go acc [] r; (cur.reverse :: gs, l)
    | w :: r => go acc (w :: cur) r
  let (gs, l) := go [] [] ws
  gs ++ [l]

def showArg : Arg → String
  | .scalar p b => s!"{primTok p}:{b}"
  | .struct b => s!"st:{hexBytes b.bytes}"
  | .unset => "NULL"

def stageTok : Stage → String
  | .prepare => "prepare" | .values => "values" | .library => "library" | .symbol => "symbol"

def bufOfBytes (bs : List UInt8) : Buf :=
  let a := bs.toArray
  ⟨a.size, fun i => a.getD i 0⟩

def step (line : String) : String :=
  match words line with
  | "layout" :: ts =>
    match parseTyList ts with
    | some [t] =>
      s!"layout {joinWith " " (structSizes t)} leaves {showTrace (cLeaves t 0)}"
    | _ => "bad-op"
  | "emit" :: ws =>
    match splitBar (ws.map fun w => if w = "->" then "|" else w) with
    | [ps, r] =>
      match parseTyList ps with
      | some pl =>
        let rt : Option RetTy :=
          if r = ["v"] then some .void
          else match parseTyList r with
            | some [t] => some (.ty t)
            | _ => none
        match rt with
        | some rt =>
          let code := emitSig (FTys.ofList pl) rt
          s!"emit {pl.length} {joinWith " " (code.map descTok)}"
        | none => "bad-op"
      | none => "bad-op"
    | _ => "bad-op"
  | "type" :: cnt :: "|" :: ds =>
    let code := ds.map tokDesc
    match recordType code.length cnt.toNat! code with
    | some (ts, rest) =>
      let sz := if prepOk (.record ts) then joinWith " " (structSizes (.record ts)) else "bad"
      s!"type ok {joinWith " " (showTys ts)} rest {rest.length} sizes {sz}"
    | none => "type crash"
  | "pack" :: cnt :: "|" :: ws =>
    match splitBar ws with
    | [ds, vs] =>
      let code := ds.map tokDesc
      match recordType code.length cnt.toNat! code, parseValList vs with
      | some (fs, _), some vl =>
        if !prepOk (.record fs) then "pack crash" else    -- ffi_prep_cif refuses the type: the harness stops there
        match valueLoop fs cnt.toNat! (FVals.ofList vl) code (Buf.zero (cSize (.record fs))) 0#32 with
        | some r =>
          s!"pack ret {if r.ret then 1 else 0} rest {r.code.length} off {r.off.toNat} bytes {hexBytes r.buf.bytes} trace {showTrace r.trace}"
        | none => "pack crash"
      | _, _ => "pack crash"
    | _ => "bad-op"
  | "unpack" :: cnt :: "|" :: ws =>
    match splitBar ws with
    | [ds, [hex]] =>
      let code := ds.map tokDesc
      match recordType code.length cnt.toNat! code with
      | some (fs, _) =>
        if !prepOk (.record fs) then "unpack crash" else
        match recordNew fs cnt.toNat! code (bufOfBytes (unhex hex)) 0#32 with
        | some r => s!"unpack {joinWith " " (showVal r.val)} rest {r.code.length} off {r.off.toNat} trace {showTrace r.trace}"
        | none => "unpack crash"
      | none => "unpack crash"
    | _ => "bad-op"
  | "exec" :: cnt :: lib :: sym :: "|" :: ws =>
    match splitBar ws with
    | [ds, vs] =>
      match parseValList vs with
      | some vl =>
        match ffiExec cnt.toNat! (ds.map tokDesc) (FVals.ofList vl) (lib = "1") (sym = "1") with
        | .crash => "exec crash"
        | .ffiFail s => s!"exec ffi_fail {stageTok s}"
        | .call args _ rest => s!"exec call {joinWith " " (args.map showArg)} rest {rest.length}"
      | none => "bad-op"
    | _ => "bad-op"
  | _ => "bad-op"

def main : IO Unit := do
  let stdin ← IO.getStdin
  let stdout ← IO.getStdout
  let _ ← forLines stdin () fun _ line => do
    stdout.putStrLn (step line)
    pure ()
  stdout.flush
end FfiDrv
