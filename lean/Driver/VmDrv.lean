import NeverModel.Model.Vm
import NeverModel.Model.VerifyRun
import Driver.Util
open Never Never.Vm Never.Num Drv
namespace VmDrv

def isNaN32 (b : BitVec 32) : Bool := (f32 b).isNaN
def isNaN64 (b : BitVec 64) : Bool := (f64 b).isNaN

/-- object repr; `full` lists container contents (final heap comparison) -/
def objRepr (full : Bool) : Option Obj → String
  | none => "free"
  | some (.int v) => s!"I{v.toInt}"
  | some (.long v) => s!"L{v.toInt}"
  | some (.float v) => if isNaN32 v then "Fnan" else s!"F{v.toNat}"
  | some (.double v) => if isNaN64 v then "Dnan" else s!"D{v.toNat}"
  | some (.char v) => s!"C{v.toInt}"
  | some (.str s) => s!"S{hexBytes s}"
  | some (.strRef p) => s!"R{p}"
  | some (.strArr _) => "T"
  | some (.cptr _) => "P"
  | some (.vec fs) => if full then s!"V{fs.length}[{natList fs}]" else s!"V{fs.length}"
  | some (.vecRef p) => s!"W{p}"
  | some (.arr dv es) => if full then "A" ++ toString es.length ++ "(" ++ joinWith "x" (dv.map fun (e, m) => s!"{e}*{m}") ++ ")[" ++ natList es ++ "]" else s!"A{es.length}"
  | some (.arrRef p) => s!"B{p}"
  | some (.func env a) => s!"U{env}@{a}"

def slotRepr (vm : Vm) (withObj : Bool) : Slot → String
  | .addr a => if withObj then
      s!"a{a}=" ++ (if a == 0 then "nil" else if a ≥ vm.gc.mem.size then s!"?oob{a}" else objRepr false (vm.gc.mem.objAt a))
    else s!"a{a}"
  | .ip v => s!"i{v}"
  | .stk v => s!"s{v}"
  | .unknown => "u"

def topRepr (vm : Vm) : String :=
  if vm.sp ≥ 0 ∧ vm.sp < vm.stackSize then slotRepr vm true (vm.stack[vm.sp.toNat]?.getD .unknown) else "-"

def traceLine (md : Module) (vm : Vm) (fe : Nat) : String :=
  let ty := match md.code[vm.ip]? with | some i => i.op.toCtorIdx | none => 9999
  let last := match vm.gc.cur.getLast? with
    | some a => s!"{a}=" ++ objRepr false (vm.gc.mem.objAt a)
    | none => "-"
  s!"t {vm.ip} {ty} {vm.sp} {vm.fp} {vm.pp} {vm.gp} {vm.running} {vm.exception} {vm.line} {vm.gc.free} {vm.gc.cur.length} {fe} {topRepr vm} {last}"

def finalLines (vm : Vm) : List String :=
  let st := (vm.stack.extract 0 (vm.sp + 1).toNat).toList.map (slotRepr vm false)
  let heap := (List.range vm.gc.mem.size).filterMap fun a =>
    match vm.gc.mem.objAt a with | some o => some s!"{a}:{objRepr true (some o)}" | none => none
  [s!"final sp={vm.sp} fp={vm.fp} pp={vm.pp} gp={vm.gp} ip={vm.ip} running={vm.running} exc={vm.exception} free={vm.gc.free} w={if vm.gc.w then 1 else 0} wbtop={vm.gc.cur.length}",
   "stack" ++ String.join (st.map (" " ++ ·)),
   "heap" ++ String.join (heap.map (" " ++ ·))]

/-! ### parsing the module dump and the result file -/
def parseDump (lines : List String) (entryAddr : Nat) (params : List Param) : Module :=
  let step (md : Module) (l : String) : Module :=
    match words l with
    | ["i", _, ty, a, b, c] =>
      let op := (Opc.ofCode ty.toNat!).getD .UNKNOWN
      { md with code := md.code.push ⟨op, a.toNat!, b.toNat!, c.toNat!⟩ }
    | ["s", _, h] => { md with strtab := md.strtab.push (unhex h) }
    | ["s", _] => { md with strtab := md.strtab.push [] }
    | ["exctab", n] => { md with excCount := n.toNat! }
    | ["x", b, h] => { md with exctab := md.exctab.push ⟨b.toNat!, h.toNat!⟩ }
    | ["entry", e] => { md with codeEntry := e.toNat! }
    | ["fn", a, k] => { md with fnParams := md.fnParams ++ [(a.toNat!, k.toNat!)] }
    | _ => md
  lines.foldl step { code := #[], strtab := #[], exctab := #[], excCount := 0, codeEntry := 0, entryAddr := entryAddr, params := params }

def parseParam (w : String) : Option Param :=
  match w.toList with
  | 'I' :: r => some (.int (BitVec.ofInt 32 (String.ofList r).toInt!))
  | 'F' :: r => some (.float (BitVec.ofNat 32 (String.ofList r).toNat!))
  | 'S' :: r => some (.str (unhex (String.ofList r)))
  | 'T' :: r =>
    match (String.ofList r).splitOn "," with
    | _ :: strs => some (.strArr (strs.map unhex))
    | [] => some (.strArr [])
  | _ => none

/-- `prepare 0 entry_addr=N params=K p1 p2 … [name=…]`: one per call; only successful ones run -/
def parsePrepares (lines : List String) : List (Nat × List Param) :=
  (lines.filter (·.startsWith "prepare 0 ")).map fun l =>
    let ws := words l
    let ea := match ws.find? (·.startsWith "entry_addr=") with
      | some w => (w.drop 11).toString.toNat! | none => 0
    (ea, ((ws.drop 4).filter (fun w => !w.startsWith "name=")).filterMap parseParam)

/-- the oracle for the instruction about to run, read from the NEXT trace line -/
def oracleOf (next : Option String) : Oracle :=
  match next with
  | none => {}
  | some l =>
    match words l with
    | [_, _, _, _, _, _, _, _, _, _, _, _, fe, _, last] =>
      let fb : Option (BitVec 32) :=
        match last.splitOn "=" with
        | [_, v] => if v == "Fnan" then some (BitVec.ofNat 32 0x7fc00000)
                    else if v.startsWith "F" then some (BitVec.ofNat 32 (v.drop 1).toString.toNat!) else none
        | _ => none
      { floatBits := fb, fe := fe.toNat! }
    | _ => {}

structure Out where
  steps : Nat := 0
  diverged : Option String := none
  stop : Option String := none

/-- usage: nmdrv vm <dump> <result> <trace|-> <mem> <stack> <gcmode> <execs> -/
partial def main (args : List String) : IO UInt32 := do
  match args with
  | [dumpF, resF, traceF, mem, stack, gcmode, execs] =>
    let dumpLines := (← IO.FS.lines dumpF).toList
    let resLines := (← IO.FS.lines resF).toList
    let preps := parsePrepares resLines
    let callsMode := execs == "calls"
    let callList : List (Nat × List Param) :=
      if callsMode then preps else List.replicate execs.toNat! (preps.headD (0, []))
    let md0 := parseDump dumpLines 0 []
    let mut md := md0
    let mut pending := callList
    let mut vm := Vm.new mem.toNat! stack.toNat! gcmode.toNat!
    let th ← if traceF == "-" then pure none else some <$> IO.FS.Handle.mk traceF .read
    let getL : IO (Option String) := match th with
      | none => pure none
      | some h => do let l ← h.getLine; pure (if l.isEmpty then none else some l.trimAscii.toString)
    let mut cur ← getL
    let mut steps : Nat := 0
    let mut diverged : Option String := none
    let mut stop : Option String := none
    let mut execsLeft := callList.length
    let mut results : List String := []
    let maxSteps := 200000000
    let mut traceActive := th.isSome
    let mut lastFe := 0
    -- the side conditions of C07's soundness theorem (Props/C07 `verify_sound_partial`: `StepOk`), checked on every replayed step of
    -- a module that verifies: live frame records followed beside the machine (`ghostNext`), `stepOkB` per step
    -- (only when NMDRV_STEPOK is set: the check walks all live records on every step, checks/c07.py asks for it)
    let sideOn := (← IO.getEnv "NMDRV_STEPOK").isSome
    -- (the certificate depends on the entry parameters: PUSH_PARAM pushes `params.length` slots; it is recomputed per call)
    let mut hmOpt : Option Never.Ver.HMap := if !sideOn then none else match Never.Ver.verifyH md0 with | .ok (_, hm) => some hm | .error _ => none
    let mut recs : List Never.Ver.Rec := []
    let mut sideChecked : Nat := 0
    let mut sideFails : Nat := 0
    let mut sideFirst : Option String := none
    while execsLeft > 0 ∧ stop.isNone ∧ diverged.isNone do
      let sp0 := vm.sp
      let wasInit := vm.initialized
      match pending with
      | (ea, ps) :: rest =>
        md := { md0 with entryAddr := ea, params := ps }; pending := rest
        if sideOn then hmOpt := match Never.Ver.verifyH md with | .ok (_, hm) => some hm | .error _ => none
      | [] => pure ()
      vm := beginExecute md vm
      -- run until running ≠ 1
      while vm.running == 1 ∧ stop.isNone ∧ diverged.isNone ∧ steps < maxSteps do
        let next ← if traceActive then getL else pure none
        if traceActive then
          match cur with
          | none => traceActive := false
          | some l =>
            -- the implementation's fe flags are an oracle input: take them from its line
            let fe := match words l with | [_, _, _, _, _, _, _, _, _, _, _, _, fe, _, _] => fe.toNat! | _ => 0
            let mine := traceLine md vm fe
            if mine != l then
              diverged := some s!"step {steps}\n  I: {l}\n  M: {mine}"
            lastFe := fe
        if diverged.isNone then
          let orc := oracleOf next
          match (step md orc).run vm with
          | .ok (_, vm') =>
            match hmOpt with
            | some hm =>
              sideChecked := sideChecked + 1
              if !Never.Ver.stepOkB md hm vm vm' recs then
                sideFails := sideFails + 1
                if sideFirst.isNone then
                  let opn := match md.code[vm.ip]? with | some i => s!"{repr i.op}" | none => "?"
                  sideFirst := some s!"step={steps} ip={vm.ip} op={opn} sp={vm.sp} fp={vm.fp} pp={vm.pp} live_records={recs.length}"
              recs := Never.Ver.ghostNext md vm recs
            | none => pure ()
            vm := vm'
          | .error (.crash why) => stop := some s!"crash {why}"
          | .error (.exit msg o) => stop := some s!"exit {msg}"; vm := { vm with out := vm.out ++ o.toArray }
          steps := steps + 1
          cur := next
      if stop.isNone ∧ diverged.isNone then
        vm := errorEpilogue vm
        -- VM_HALT: copy the result out (object at stack[sp]); VM_ERROR: return 1
        let r := if vm.running == 0 then
            match (rdAddr vm.sp).run vm with
            | .ok (a, _) => objRepr false (vm.gc.mem.objAt a)
            | .error _ => "?"
          else "-"
        vm := haltEpilogue vm
        vm := failEpilogue wasInit sp0 vm
        results := results ++ [s!"exec ret={if vm.running == 0 then 0 else 1} sp_before={sp0} sp_after={vm.sp} running={vm.running} exc={vm.exception} result={r}"]
        if vm.running != 0 ∧ !callsMode then execsLeft := 0 else execsLeft := execsLeft - 1
    IO.println s!"steps {steps}"
    match hmOpt with
    | some _ => IO.println s!"stepok checked={sideChecked} fails={sideFails} live_at_end={recs.length}{match sideFirst with | some f => " first: " ++ f | none => ""}"
    | none => if sideOn then IO.println "stepok module-not-verified"
    match diverged with | some d => IO.println s!"DIVERGE {d}" | none => pure ()
    match stop with | some s => IO.println s!"stop {s}" | none => pure ()
    if diverged.isNone ∧ stop.isNone ∧ traceActive ∧ cur.isSome then IO.println s!"DIVERGE trace has more lines than the model executed: {cur.getD ""}"
    for r in results do IO.println r
    IO.println s!"out {hexBytes vm.out.toList}"
    for l in finalLines vm do IO.println l
    return 0
  | _ => IO.eprintln "usage: nmdrv vm <dump> <result> <trace|-> <mem> <stack> <gcmode> <execs>"; return 2

end VmDrv
