import NeverModel.Model.Check
import Driver.Util
open Never.Tc Drv
/-! `nmdrv tc`: one program per line as an s-expression (written by checks/c06_corr.py), answer
`ok` | `err LINE RULE` | `parse-error MSG`.  Reader only: no typing logic lives here, except the
grouping of consecutive functions of a sequence into one `SeqItem.funcs` (what the two loops of
`seq_list_check_type` do). -/
namespace TcDrv

inductive SX
  | atom (s : String)
  | list (xs : List SX)
  deriving Inhabited

partial def lexx (cs : List Char) (cur : List Char) (acc : Array String) : Array String :=
  let flush (acc : Array String) := if cur.isEmpty then acc else acc.push (String.ofList cur.reverse)
  match cs with
  | [] => flush acc
  | c :: r =>
    if c == '(' || c == ')' then lexx r [] ((flush acc).push (String.singleton c))
    else if c == ' ' || c == '\n' || c == '\t' || c == '\r' then lexx r [] (flush acc)
    else lexx r (c :: cur) acc

/-- parse one s-expression starting at token `i`; returns it and the next index -/
partial def parseSX (toks : Array String) (i : Nat) : Option (SX × Nat) :=
  if h : i < toks.size then
    let t := toks[i]
    if t == "(" then
      let rec go (j : Nat) (acc : Array SX) : Option (SX × Nat) :=
        if h2 : j < toks.size then
          if toks[j] == ")" then some (.list acc.toList, j + 1)
          else match parseSX toks j with
            | some (x, j') => go j' (acc.push x)
            | none => none
        else none
      go (i + 1) #[]
    else if t == ")" then none
    else some (.atom t, i + 1)
  else none

abbrev R := Except String

def fail {α} (m : String) : R α := .error m

def nat (x : SX) : R Nat :=
  match x with
  | .atom s => match s.toNat? with | some n => pure n | none => fail s!"nat {s}"
  | _ => fail "nat"

def name (x : SX) : R String :=
  match x with
  | .atom s => pure (if s == "_" then "" else s)
  | _ => fail "name"

def cst (x : SX) : R PCst :=
  match x with
  | .atom "d" => pure .dflt
  | .atom "c" => pure .const
  | .atom "v" => pure .var
  | _ => fail "cst"

mutual
partial def ty (x : SX) : R Ty :=
  match x with
  | .atom "bool" => pure .bool
  | .atom "int" => pure .int
  | .atom "long" => pure .long
  | .atom "float" => pure .float
  | .atom "double" => pure .double
  | .atom "char" => pure .char
  | .atom "string" => pure .string
  | .list [.atom "n", l, s] => do pure (.named (← nat l) (← name s))
  | .list [.atom "fn", .list ps, c, r] => do pure (.func (← tys ps) (← cst c) (← ty r))
  | .list [.atom "arr", c, e] => do pure (.array 1 (← cst c) (← ty e))
  | .list [.atom "arrn", n, c, e] => do pure (.array (← nat n) (← cst c) (← ty e))
  | .list (.atom "tup" :: ms) => do pure (.tuple (← tys ms))
  | .list [.atom "rng", n] => do pure (.range (← nat n))
  | .list [.atom "slc", n, c, e] => do pure (.slice (← nat n) (← cst c) (← ty e))
  | _ => fail "ty"
partial def tys (xs : List SX) : R TyList :=
  match xs with
  | [] => pure .nil
  | .list [c, t] :: r => do pure (.cons (← cst c) (← ty t) (← tys r))
  | _ => fail "tys"
end

def param (x : SX) : R Param :=
  match x with
  | .list [l, n, c, t] => do pure ⟨← nat l, ← name n, ← cst c, ← ty t, []⟩
  | .list [l, n, c, t, .list bs] => do
      let bn ← bs.mapM fun b =>
        match b with
        | .list [bl, bname] => do pure ((← nat bl), (← name bname))
        | _ => fail "bound name"
      pure ⟨← nat l, ← name n, ← cst c, ← ty t, bn⟩
  | _ => fail "param"

def unop (x : SX) : R UnOp :=
  match x with
  | .atom "neg" => pure .neg | .atom "not" => pure .not | .atom "bnot" => pure .bnot
  | _ => fail "unop"

def binop (x : SX) : R BinOp :=
  match x with
  | .atom "add" => pure .add | .atom "sub" => pure .sub | .atom "mul" => pure .mul
  | .atom "div" => pure .div | .atom "mod" => pure .mod | .atom "lt" => pure .lt
  | .atom "gt" => pure .gt | .atom "lte" => pure .lte | .atom "gte" => pure .gte
  | .atom "eq" => pure .eq | .atom "neq" => pure .neq | .atom "and" => pure .and
  | .atom "or" => pure .or | .atom "band" => pure .band | .atom "bor" => pure .bor
  | .atom "bxor" => pure .bxor | .atom "shl" => pure .shl | .atom "shr" => pure .shr
  | _ => fail "binop"

def binds (bs : List SX) : R (List (Ln × String)) :=
  bs.mapM fun b =>
    match b with
    | .list [bl, bname] => do pure ((← nat bl), (← name bname))
    | _ => fail "bind"

def isFunc (x : SX) : Bool :=
  match x with
  | .list (.atom "func" :: _) => true
  | _ => false

mutual
partial def expr (x : SX) : R Expr :=
  match x with
  | .list [.atom "b", l] => do pure (.litBool (← nat l))
  | .list [.atom "i", l] => do pure (.litInt (← nat l))
  | .list [.atom "l", l] => do pure (.litLong (← nat l))
  | .list [.atom "f", l] => do pure (.litFloat (← nat l))
  | .list [.atom "d", l] => do pure (.litDouble (← nat l))
  | .list [.atom "c", l] => do pure (.litChar (← nat l))
  | .list [.atom "s", l] => do pure (.litString (← nat l))
  | .list [.atom "id", l, n] => do pure (.id (← nat l) (← name n))
  | .list [.atom "ev", l, e, it] => do pure (.enumVal (← nat l) (← expr e) (← name it))
  | .list [.atom "un", l, o, e] => do pure (.un (← nat l) (← unop o) (← expr e))
  | .list [.atom "bin", l, o, a, b] => do pure (.bin (← nat l) (← binop o) (← expr a) (← expr b))
  | .list [.atom "sup", l, e] => do pure (.sup (← nat l) (← expr e))
  | .list [.atom "cond", l, c, t, e] => do pure (.cond (← nat l) (← expr c) (← expr t) (← expr e))
  | .list [.atom "ass", l, a, b] => do pure (.ass (← nat l) (← expr a) (← expr b))
  | .list [.atom "while", l, c, b] => do pure (.while_ (← nat l) (← expr c) (← expr b))
  | .list [.atom "forin", l, n, a, b] => do pure (.forIn (← nat l) (← name n) (← expr a) (← expr b))
  | .list (.atom "call" :: l :: f :: args) => do pure (.call (← nat l) (← expr f) (← exprs args))
  | .list [.atom "fun", f] => do pure (.funcLit (← func f))
  | .list (.atom "seq" :: l :: items) => do pure (.seq (← nat l) (← seqItems items))
  | .list [.atom "attr", l, r, f] => do pure (.attr (← nat l) (← expr r) (← name f))
  | .list (.atom "match" :: l :: s :: gs) => do pure (.match_ (← nat l) (← expr s) (← guards gs))
  | .list (.atom "arr" :: l :: c :: t :: es) => do
      pure (.array (← nat l) (← exprs es) (← cst c) (← ty t))
  | .list (.atom "deref" :: l :: a :: idx) => do pure (.deref (← nat l) (← expr a) (← exprs idx))
  | .list (.atom "sub" :: es) => do pure (.sub (← exprs es))
  | .list (.atom "tuple" :: l :: .list ms :: es) => do pure (.tuple (← nat l) (← exprs es) (← tys ms))
  | .list [.atom "proj", l, a, il, i] => do pure (.proj (← nat l) (← expr a) (← nat il) (← nat i))
  | .list (.atom "range" :: l :: bs) => do pure (.range (← nat l) (← exprs bs))
  | .list (.atom "slice" :: l :: a :: bs) => do pure (.slice (← nat l) (← expr a) (← exprs bs))
  | .list (.atom "ctor" :: l :: e :: it :: args) => do
      pure (.ctor (← nat l) (← expr e) (← name it) (← exprs args))
  | .list [.atom "ifletrec", l, gl, en, it, .list bs, e, t, f] => do
      pure (.ifLetRec (← nat l) (← nat gl) (← name en) (← name it) (← binds bs) (← expr e) (← expr t) (← expr f))
  | .list [.atom "iflet", l, gl, en, it, e, t, f] => do
      pure (.ifLet (← nat l) (← nat gl) (← name en) (← name it) (← expr e) (← expr t) (← expr f))
  | .list (.atom "pipe" :: l :: a :: f :: args) => do
      pure (.pipe (← nat l) (← expr a) (← expr f) (← exprs args))
  | .list (.atom "lc" :: l :: e :: c :: t :: qs) => do
      pure (.listcomp (← nat l) (← expr e) (← quals qs) (← cst c) (← ty t))
  | _ => fail "expr"
partial def exprs (xs : List SX) : R ExprList :=
  match xs with
  | [] => pure .nil
  | x :: r => do pure (.cons (← expr x) (← exprs r))
partial def seqItems (xs : List SX) : R SeqList :=
  match xs with
  | [] => pure .nil
  | .list [.atom "let", l, n, e] :: r => do
      pure (.cons (.bind (← nat l) false (← name n) (← expr e)) (← seqItems r))
  | .list [.atom "var", l, n, e] :: r => do
      pure (.cons (.bind (← nat l) true (← name n) (← expr e)) (← seqItems r))
  | x :: r =>
    if isFunc x then do
      let run := (x :: r).takeWhile isFunc
      let rest := (x :: r).dropWhile isFunc
      pure (.cons (.funcs (← funcs run)) (← seqItems rest))
    else do pure (.cons (.expr (← expr x)) (← seqItems r))
partial def guards (xs : List SX) : R GuardList :=
  match xs with
  | [] => pure .nil
  | .list [.atom "g", l, en, it, e] :: r => do
      pure (.cons (.item (← nat l) (← name en) (← name it) (← expr e)) (← guards r))
  | .list [.atom "grec", l, en, it, .list bs, e] :: r => do
      pure (.cons (.recd (← nat l) (← name en) (← name it) (← binds bs) (← expr e)) (← guards r))
  | .list [.atom "else", l, e] :: r => do pure (.cons (.else_ (← nat l) (← expr e)) (← guards r))
  | _ => fail "guard"
partial def quals (xs : List SX) : R QualList :=
  match xs with
  | [] => pure .nil
  | .list [.atom "gen", l, n, e] :: r => do
      pure (.cons (.gen (← nat l) (← name n) (← expr e)) (← quals r))
  | .list [.atom "flt", l, e] :: r => do pure (.cons (.filter (← nat l) (← expr e)) (← quals r))
  | _ => fail "qual"
partial def func (x : SX) : R Func :=
  match x with
  | .list (.atom "func" :: l :: n :: .list ps :: c :: t :: body :: xs) => do
      pure (.mk (← nat l) (← name n) (← ps.mapM param) (← cst c) (← ty t) (← expr body) (← excs xs))
  | _ => fail "func"
partial def funcs (xs : List SX) : R FuncList :=
  match xs with
  | [] => pure .nil
  | x :: r => do pure (.cons (← func x) (← funcs r))
partial def excs (xs : List SX) : R ExcList :=
  match xs with
  | [] => pure .nil
  | .list [.atom "exc", l, n, b] :: r => do
      pure (.cons (.mk (← nat l) (← name n) (← expr b)) (← excs r))
  | _ => fail "exc"
end

def decl (x : SX) : R Decl :=
  match x with
  | .list (.atom "enum" :: l :: n :: items) => do
      let its ← items.mapM fun it =>
        match it with
        | .list [il, iname] => do pure ((← nat il), (← name iname))
        | _ => fail "enum item"
      pure (.enum (← nat l) (← name n) its)
  | .list (.atom "enumrec" :: l :: en :: it :: fields) => do
      pure (.enumRec (← nat l) (← name en) (← name it) (← fields.mapM param))
  | .list (.atom "record" :: l :: n :: fields) => do
      pure (.record (← nat l) (← name n) (← fields.mapM param))
  | _ => fail "decl"

def prog (x : SX) : R Prog :=
  match x with
  | .list (.atom "prog" :: .list ds :: fs) => do pure ⟨← ds.mapM decl, ← funcs fs⟩
  | _ => fail "prog"

def ruleName (r : Rule) : String :=
  let s := toString (repr r)
  match (s.splitOn ".").getLast? with
  | some x => x
  | none => s

def answer (line : String) : String :=
  let toks := lexx line.toList [] #[]
  match parseSX toks 0 with
  | none => "parse-error sx"
  | some (sx, _) =>
    match prog sx with
    | .error m => s!"parse-error {m}"
    | .ok p =>
      match check p with
      | .ok () => "ok"
      | .error d => s!"err {d.line} {ruleName d.rule}"

def main : IO Unit := do
  let stdin ← IO.getStdin
  let stdout ← IO.getStdout
  let _ ← forLines stdin () fun _ line => do
    if line.trimAscii.toString.isEmpty then
      stdout.putStrLn "parse-error empty"
    else
      stdout.putStrLn (answer line)
    pure ()
  stdout.flush
end TcDrv
