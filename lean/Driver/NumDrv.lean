import NeverModel.Model.NumTables
import NeverModel.Model.NumFmt
import NeverModel.Model.NumKnown
import Driver.Util
open Never Never.Num Never.CExpr Never.NumTables Drv
namespace NumDrv

def parseHex (s : String) : Nat := s.toList.foldl (fun acc c => acc * 16 + unhexDigit c) 0

def hexN (digits : Nat) (n : Nat) : String :=
  String.ofList ((List.range digits).reverse.map fun i => hexDigit ((n >>> (4 * i)) % 16))

def tyOf : String → Option NTy
  | "int" => some .int | "long" => some .long | "float" => some .float | "double" => some .double | "char" => some .char
  | _ => none

def tyName : NTy → String
  | .int => "int" | .long => "long" | .float => "float" | .double => "double" | .char => "char"

/-- `int:ffffffff` -/
def parseVal (w : String) : Option NVal :=
  match w.splitOn ":" with
  | [t, h] =>
    let n := parseHex h
    (match t with
     | "int" => some (.int (BitVec.ofNat 32 n))
     | "long" => some (.long (BitVec.ofNat 64 n))
     | "float" => some (.float (BitVec.ofNat 32 n))
     | "double" => some (.double (BitVec.ofNat 64 n))
     | "char" => some (.char (BitVec.ofNat 8 n))
     | _ => none)
  | _ => none

def showVal : NVal → String
  | .int v => "int:" ++ hexN 8 v.toNat
  | .long v => "long:" ++ hexN 16 v.toNat
  | .float v => "float:" ++ hexN 8 v.toNat
  | .double v => "double:" ++ hexN 16 v.toNat
  | .char v => "char:" ++ hexN 2 v.toNat

def showRes : NRes → String
  | .ok v => "ok " ++ showVal v
  | .exc e => s!"exc {e}"
  | .crash w => "crash " ++ w
  | .tag => "tag"

def binOf : String → Option BinOp
  | "add" => some .add | "sub" => some .sub | "mul" => some .mul | "div" => some .div | "mod" => some .mod
  | "lt" => some .lt | "gt" => some .gt | "lte" => some .lte | "gte" => some .gte | "eq" => some .eq | "neq" => some .neq
  | "band" => some .band | "bor" => some .bor | "bxor" => some .bxor | "shl" => some .shl | "shr" => some .shr
  | _ => none

def unOf : String → Option UnOp
  | "neg" => some .neg | "not" => some .not | "bnot" => some .bnot | _ => none

def kindOf : String → Option LitKind
  | "bool" => some .bool | "int" => some .int | "long" => some .long | "float" => some .float | "double" => some .double
  | "char" => some .char | "enumtype" => some .enumtype | _ => none

def kindName : LitKind → String
  | .bool => "bool" | .int => "int" | .long => "long" | .float => "float" | .double => "double" | .char => "char" | .enumtype => "enumtype"

def combOf : String → Option Comb
  | "bool" => some .bool | "int" => some .int | "long" => some .long | "float" => some .float | "double" => some .double
  | "char" => some .char | "enumtype" => some .enumtype | _ => none

def srcOf : String → Option SrcOp
  | "neg" => some .neg | "add" => some .add | "sub" => some .sub | "mul" => some .mul | "div" => some .div | "mod" => some .mod
  | "lt" => some .lt | "gt" => some .gt | "lte" => some .lte | "gte" => some .gte | "eq" => some .eq | "neq" => some .neq
  | "and" => some .and | "or" => some .or | "not" => some .not | "bin_not" => some .bin_not | "bin_and" => some .bin_and
  | "bin_or" => some .bin_or | "bin_xor" => some .bin_xor | "bin_shl" => some .bin_shl | "bin_shr" => some .bin_shr
  | "sup" => some .sup | "ass" => some .ass | "conv" => some .conv | _ => none

def srcName : SrcOp → String
  | .neg => "neg" | .add => "add" | .sub => "sub" | .mul => "mul" | .div => "div" | .mod => "mod"
  | .lt => "lt" | .gt => "gt" | .lte => "lte" | .gte => "gte" | .eq => "eq" | .neq => "neq"
  | .and => "and" | .or => "or" | .not => "not" | .bin_not => "bin_not" | .bin_and => "bin_and"
  | .bin_or => "bin_or" | .bin_xor => "bin_xor" | .bin_shl => "bin_shl" | .bin_shr => "bin_shr"
  | .sup => "sup" | .ass => "ass" | .conv => "conv"

def tableOf : String → FoldTable
  | "enumred" => .enumred | _ => .constred

def showFold : FoldRes → String
  | .folded k v => "folded " ++ kindName k ++ " " ++ showVal v
  | .divzero => "divzero"
  | .crash w => "crash " ++ w
  | .illkinded => "illkinded"

def findFold (table : String) (op : Option SrcOp) (conv : Option (NTy × NTy)) (ka : LitKind) (kb : Option LitKind) : Option FoldRow :=
  match op with
  | none => none
  | some op => T.foldRows.find? fun r => r.table == tableOf table && r.op == op && r.conv == conv && r.kindA == ka && r.kindB == kb

def convOfName (s d : String) : Option (NTy × NTy) :=
  match tyOf s, tyOf d with
  | some a, some b => some (a, b)
  | _, _ => none

def dummy : NVal := .int 0

def answer (line : String) : String :=
  match words line with
  | ["bin", ty, op, a, b] =>
    (match tyOf ty, binOf op, parseVal a, parseVal b with
     | some t, some o, some x, some y => showRes (Num.bin t o x y)
     | _, _, _, _ => "bad-op")
  | ["un", ty, op, a] =>
    (match tyOf ty, unOf op, parseVal a with
     | some t, some o, some x => showRes (Num.un t o x)
     | _, _, _ => "bad-op")
  | ["conv", s, d, a] =>
    (match tyOf s, tyOf d, parseVal a with
     | some s, some d, some x => showRes (Num.conv s d x)
     | _, _, _ => "bad-op")
  -- fold <table> <op> <kindA> <kindB|-> <a> <b|->
  | ["fold", table, op, ka, kb, a, b] =>
    (match kindOf ka, parseVal a with
     | some ka, some x =>
       let kb' := kindOf kb
       let y := (parseVal b).getD dummy
       (match findFold table (srcOf op) none ka kb' with
        | some r => showFold (r.eval x y)
        | none => "nofold")
     | _, _ => "bad-op")
  | ["foldsrc", op, ka, kb, a, b] =>
    (match srcOf op, kindOf ka, parseVal a with
     | some o, some ka, some x =>
       (match T.foldSrc o ka (kindOf kb) x ((parseVal b).getD dummy) with
        | some r => showFold r
        | none => "nofold")
     | _, _, _ => "bad-op")
  | ["foldconv", cs, cd, ka, a] =>
    (match kindOf ka, parseVal a with
     | some ka, some x =>
       (match findFold "constred" (some .conv) (convOfName cs cd) ka none with
        | some r => showFold (r.eval x dummy)
        | none => "nofold")
     | _, _ => "bad-op")
  -- run <op> <combL> <combR|-> <a> <b|->
  | ["run", op, l, r, a, b] =>
    (match combOf l, parseVal a with
     | some l, some x =>
       (match srcOf op with
        | some o => showRes (T.runSrc o l (combOf r) x ((parseVal b).getD dummy))
        | none => "bad-op")
     | _, _ => "bad-op")
  -- counterpart of a fold row, run on the operands
  | ["runrow", table, op, ka, kb, a, b] =>
    (match kindOf ka, parseVal a with
     | some ka, some x =>
       (match findFold table (srcOf op) none ka (kindOf kb) with
        | some r => showRes (T.runRow r x ((parseVal b).getD dummy))
        | none => "nofold")
     | _, _ => "bad-op")
  | ["runrowconv", cs, cd, ka, a] =>
    (match kindOf ka, parseVal a with
     | some ka, some x =>
       (match findFold "constred" (some .conv) (convOfName cs cd) ka none with
        | some r => showRes (T.runRow r x dummy)
        | none => "nofold")
     | _, _ => "bad-op")
  | ["ass", l, r, b] =>
    (match combOf l, combOf r, parseVal b with
     | some l, some r, some y => showRes (T.runAss l r y)
     | _, _, _ => "bad-op")
  | ["param", l, r, b] =>
    (match combOf l, combOf r, parseVal b with
     | some l, some r, some y =>
       (match T.param.find? (fun c => c.l == l && c.r == r) with
        | some c => showRes (T.applyConv c.convR y)
        | none => "rejected")
     | _, _, _ => "bad-op")
  | ["fmt", a] =>
    (match parseVal a with
     | some x => "str " ++ NumFmt.fmtVal x
     | none => "bad-op")
  | ["rows"] =>
    joinWith " " (T.foldRows.map fun r => (if r.table == .enumred then "enumred" else "constred") ++ "/" ++ srcName r.op ++ "/" ++
      ((r.conv.map fun c => tyName c.1 ++ ">" ++ tyName c.2).getD "-") ++ "/" ++ kindName r.kindA ++ "/" ++ ((r.kindB.map kindName).getD "-"))
  | ["agree"] =>
    joinWith " " (T.foldRows.map fun r => if rowAgrees T r then "1" else "0")
  | ["vmok"] =>
    joinWith " " (T.vmRows.map fun r => r.name ++ ":" ++ (if r.ok then "1" else "0"))
  | ["known"] =>
    joinWith " " (NumKnown.present.map fun p => p.1 ++ "=" ++ (if p.2 then "1" else "0"))
  | ["tables"] =>
    s!"vm {T.vmRows.length} opcodes {T.opcodes.length} fold {T.foldRows.length} basic {T.basic.length} ass {T.ass.length} rules {T.rules.length}"
  | _ => "bad-op"

def main : IO Unit := do
  let stdin ← IO.getStdin
  let stdout ← IO.getStdout
  let _ ← forLines stdin () fun _ line => do
    stdout.putStrLn (answer line)
  stdout.flush

end NumDrv
