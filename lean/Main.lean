import Driver.GcDrv
import Driver.ExcDrv
import Driver.IdxDrv
import Driver.VmDrv
import Driver.FfiDrv
import Driver.LedgerDrv
import Driver.NumDrv
import Driver.VerDrv
import Driver.DiagDrv
import Driver.TcDrv
import Driver.SrcDrv
import Driver.TailDrv

def main (args : List String) : IO UInt32 := do
  match args with
  | ["gc"] => GcDrv.main; return 0
  | ["exc"] => ExcDrv.main; return 0
  | ["idx"] => IdxDrv.main; return 0
  | "vm" :: rest => VmDrv.main rest
  | ["ffi"] => FfiDrv.main; return 0
  | ["ledger"] => LedgerDrv.main; return 0
  | ["num"] => NumDrv.main; return 0
  | "verify" :: rest => VerDrv.main rest
  | ["diag"] => DiagDrv.main; return 0
  | ["tc"] => TcDrv.main; return 0
  | ["src"] => SrcDrv.main; return 0
  | ["tail"] => TailDrv.main; return 0
  | _ => IO.eprintln "usage: nmdrv gc|..."; return 2
