import Driver.GcDrv
import Driver.ExcDrv

def main (args : List String) : IO UInt32 := do
  match args with
  | ["gc"] => GcDrv.main; return 0
  | ["exc"] => ExcDrv.main; return 0
  | _ => IO.eprintln "usage: nmdrv gc|..."; return 2
