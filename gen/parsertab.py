#!/usr/bin/env python3
"""Translator (T) for C16: front/parser.y (+ front/types.h, front/scanner.l) -> Lean tables.

What is extracted from the CURRENT text of the tree (NEVER_REPO or /repo):
  * every grammar symbol with its <tag> and every rule (lhs, rhs) and the LALR automaton:
    from bison's own XML report of parser.y (`bison -x`), i.e. bison's reading of the file;
  * the C type of every semantic-value member: `%union` of parser.y if there is one, else
    the type named by `#define YYSTYPE` / `%define api.value.type`, resolved through the
    struct/union typedefs of front/*.h (tag `val.str_value` = member path);
  * every `%destructor { code } symbols|<tag>|<*>|<>` of parser.y (comments stripped first,
    so a commented-out destructor does not count), the functions its code applies to `$$`;
  * for every rule the `$n` its action mentions (`$<line_no>n` is a line number, not a use);
  * from scanner.l: the tokens whose action stores an allocated value in a pointer member
    before `return TOK_X`.
Derived per symbol:
  ownsHeap     nonterminal: the member is a pointer; token: pointer member AND the scanner
               stores into it for that token
  discardable  bison can pop the symbol from its stack (error recovery or abort): token, or
               some state entered on the symbol is not a pure default-reduction state, or
               the symbol has an empty rule
  handedOut    start symbol whose actions store the value through the %parse-param
Anything whose shape is not recognised is collected in `problems` (a broken tie); the
caller must report it, never skip it.
"""
import os, re, subprocess, sys, tempfile, shutil, json
import xml.etree.ElementTree as ET

REPO = os.environ.get("NEVER_REPO", "/repo")
HERE = os.path.dirname(os.path.abspath(__file__))
OUT = os.path.join(os.path.dirname(HERE), "lean", "NeverModel", "Gen", "ParserTab.lean")

KNOWN_DIRECTIVES = {"%token", "%type", "%left", "%right", "%nonassoc", "%precedence", "%start", "%destructor",
                    "%define", "%parse-param", "%lex-param", "%param", "%pure-parser", "%pure_parser", "%expect", "%expect-rr",
                    "%locations", "%union", "%code", "%debug", "%verbose", "%defines", "%output", "%require",
                    "%name-prefix", "%file-prefix", "%error-verbose", "%glr-parser", "%skeleton", "%language",
                    "%initial-action", "%printer", "%no-lines", "%token-table", "%nterm"}

def strip_c_comments(s):
    """remove /* */ and // comments, keep string/char literals; newlines kept for line numbers"""
    out, i, n = [], 0, len(s)
    while i < n:
        c = s[i]
        if s.startswith("/*", i):
            j = s.find("*/", i + 2)
            j = n if j < 0 else j + 2
            out.append("".join(ch if ch == "\n" else " " for ch in s[i:j])); i = j; continue
        if s.startswith("//", i):
            j = s.find("\n", i)
            j = n if j < 0 else j
            out.append(" " * (j - i)); i = j; continue
        if c in "\"'":
            j = i + 1
            while j < n and s[j] != c:
                j += 2 if s[j] == "\\" else 1
            out.append(s[i:j + 1]); i = j + 1; continue
        out.append(c); i += 1
    return "".join(out)

def match_brace(s, i):
    """s[i] == '{' -> index after the matching '}' (string/char literals respected)"""
    depth, n = 0, len(s)
    while i < n:
        c = s[i]
        if c in "\"'":
            j = i + 1
            while j < n and s[j] != c:
                j += 2 if s[j] == "\\" else 1
            i = j + 1; continue
        if c == "{":
            depth += 1
        elif c == "}":
            depth -= 1
            if depth == 0:
                return i + 1
        i += 1
    return -1

def split_sections(y):
    """-> (prologue_and_declarations, rules, epilogue) with %{ %} blocks blanked"""
    # blank %{ ... %}
    def blank(m):
        return "".join(ch if ch == "\n" else " " for ch in m.group(0))
    y2 = re.sub(r"%\{.*?%\}", blank, y, flags=re.S)
    parts = re.split(r"^%%[ \t]*$", y2, flags=re.M)
    if len(parts) < 2:
        return y2, "", ""
    return parts[0], parts[1], parts[2] if len(parts) > 2 else ""

SYMTOK = re.compile(r"\s*(<[^>]*>|'(?:\\.|[^'])+'|\"(?:\\.|[^\"])*\"|[A-Za-z_.][A-Za-z0-9_.]*|;)")

def parse_declarations(decl, problems):
    """-> dict(destructors=[(code, [symbols-or-<tag>], line)], start, parse_params=[names], union_body or None, value_type or None)"""
    res = dict(destructors=[], start=None, parse_params=[], union=None, value_type=None)
    i, n = 0, len(decl)
    line_of = lambda pos: decl.count("\n", 0, pos) + 1
    while i < n:
        m = re.compile(r"%[A-Za-z_-]+").search(decl, i)
        if not m:
            break
        d, j = m.group(0), m.end()
        if d not in KNOWN_DIRECTIVES:
            problems.append("parser.y:%d: directive %s not known to the translator" % (line_of(m.start()), d))
        if d == "%destructor":
            k = decl.find("{", j)
            e = match_brace(decl, k) if k >= 0 else -1
            if k < 0 or e < 0 or decl[j:k].strip():
                problems.append("parser.y:%d: %%destructor without a braced code block" % line_of(m.start()))
                i = j; continue
            code = decl[k + 1:e - 1]
            syms, p = [], e
            while True:
                mm = SYMTOK.match(decl, p)
                if not mm or mm.group(1).startswith("%"):
                    break
                t = mm.group(1)
                # stop at the next directive (a symbol list ends at the next '%')
                if decl[p:mm.start(1)].find("%") >= 0:
                    break
                if t != ";":
                    syms.append(t)
                p = mm.end()
            if not syms:
                problems.append("parser.y:%d: %%destructor with an empty symbol list" % line_of(m.start()))
            res["destructors"].append((code, syms, line_of(m.start())))
            i = p; continue
        if d == "%start":
            mm = SYMTOK.match(decl, j)
            res["start"] = mm.group(1) if mm else None
            i = mm.end() if mm else j; continue
        if d in ("%parse-param", "%param"):
            k = decl.find("{", j); e = match_brace(decl, k)
            body = decl[k + 1:e - 1]
            for piece in body.split(","):
                mm = re.search(r"([A-Za-z_][A-Za-z0-9_]*)\s*(\[[^\]]*\])?\s*$", piece.strip())
                if mm:
                    res["parse_params"].append(mm.group(1))
            i = e; continue
        if d == "%union":
            k = decl.find("{", j); e = match_brace(decl, k)
            res["union"] = decl[k + 1:e - 1]
            i = e; continue
        if d == "%define":
            mm = re.compile(r"\s*api\.value\.type\s*\{([^}]*)\}").match(decl, j)
            if mm:
                res["value_type"] = mm.group(1).strip()
                i = mm.end(); continue
        if d in ("%code", "%initial-action", "%printer", "%lex-param"):
            k = decl.find("{", j)
            if k >= 0:
                e = match_brace(decl, k)
                i = e if e > 0 else j; continue
        i = j
    return res

def parse_members(body):
    """struct/union body -> {member: ctype}  (simple declarators only)"""
    mem = {}
    for stmt in body.split(";"):
        s = " ".join(stmt.split())
        if not s:
            continue
        m = re.match(r"^(.*?)([A-Za-z_][A-Za-z0-9_]*)$", s)
        if not m or "(" in s or "[" in s or "{" in s:
            mem["?" + s] = None
            continue
        ty = m.group(1).strip()
        ty = re.sub(r"\s*\*\s*", " *", ty).strip()
        mem[m.group(2)] = ty
    return mem

def load_c_types(front_dir):
    """typedef'd structs/unions of front/*.h: name -> (kind, {member: type})"""
    types, defines = {}, {}
    for f in sorted(os.listdir(front_dir)):
        if not f.endswith(".h") or f == "parser.h":
            continue
        src = strip_c_comments(open(os.path.join(front_dir, f), errors="replace").read())
        for m in re.finditer(r"#\s*define\s+YYSTYPE\s+([A-Za-z_][A-Za-z0-9_ ]*)", src):
            defines["YYSTYPE"] = m.group(1).strip()
        for m in re.finditer(r"\b(typedef\s+)?(struct|union)\s+([A-Za-z_][A-Za-z0-9_]*)?\s*\{", src):
            k = m.end() - 1
            e = match_brace(src, k)
            if e < 0:
                continue
            body = src[k + 1:e - 1]
            if "{" in body:
                continue  # nested aggregates: not needed for the value type
            names = [m.group(3)] if m.group(3) else []
            if m.group(1):
                mm = re.compile(r"\s*([A-Za-z_][A-Za-z0-9_]*)\s*;").match(src, e)
                if mm:
                    names.append(mm.group(1))
            for nm in names:
                types.setdefault(nm, (m.group(2), parse_members(body)))
    return types, defines

def resolve_tag(tag, root_members, types):
    """member path a.b.c through root_members -> ctype or None"""
    mem, ty = root_members, None
    parts = tag.split(".")
    for idx, p in enumerate(parts):
        if mem is None or p not in mem or mem[p] is None:
            return None
        ty = mem[p]
        if idx + 1 < len(parts):
            base = re.sub(r"^(struct|union)\s+", "", ty).strip()
            if base.endswith("*") or base not in types:
                return None
            mem = types[base][1]
    return ty

def is_pointer(ty):
    return ty is not None and ty.endswith("*")

def parse_rules_text(rules_txt, line0, problems):
    """text of the rules section -> [dict(lhs, rhs[list of symbols, mid-rule actions as '{}'], action or None, line)]"""
    s, i, n = rules_txt, 0, len(rules_txt)
    out = []
    line_of = lambda pos: line0 + s.count("\n", 0, pos)
    tok = re.compile(r"\s*(%[A-Za-z_-]+|<[^>]*>|'(?:\\.|[^'])+'|\"(?:\\.|[^\"])*\"|[A-Za-z_.][A-Za-z0-9_.]*|[:|;{])")
    lhs = None
    cur = None
    def flush():
        nonlocal cur
        if cur is not None:
            # trailing action = final action; earlier '{}' are mid-rule
            if cur["items"] and cur["items"][-1][0] == "{}":
                cur["action"] = cur["items"][-1][1]
                cur["items"] = cur["items"][:-1]
            else:
                cur["action"] = None
            out.append(cur)
            cur = None
    while i < n:
        m = tok.match(s, i)
        if not m:
            if s[i:].strip():
                problems.append("parser.y:%d: unrecognised text in rules section: %r" % (line_of(i), s[i:i + 30].strip()))
            break
        t = m.group(1)
        if t == "{":
            k = m.start(1)
            e = match_brace(s, k)
            if e < 0:
                problems.append("parser.y:%d: unbalanced action" % line_of(k)); break
            if cur is None:
                problems.append("parser.y:%d: action outside a rule" % line_of(k))
            else:
                cur["items"].append(("{}", s[k + 1:e - 1]))
            i = e; continue
        i = m.end()
        if t == ";":
            flush(); lhs = None; continue
        if t == "|":
            flush()
            cur = dict(lhs=lhs, items=[], line=line_of(m.start(1)), prec=None)
            continue
        if t == ":":
            continue
        if t.startswith("%"):
            if t == "%prec":
                mm = tok.match(s, i)
                if cur is not None and mm:
                    cur["prec"] = mm.group(1)
                i = mm.end() if mm else i
            elif t == "%empty":
                pass
            else:
                problems.append("parser.y:%d: directive %s inside the rules section" % (line_of(m.start(1)), t))
            continue
        if t.startswith("<"):
            continue
        # identifier or literal: is it an lhs (followed by ':')?
        mm = re.compile(r"\s*:").match(s, i)
        if mm and not t.startswith("'") and not t.startswith('"'):
            flush()
            lhs = t
            cur = dict(lhs=lhs, items=[], line=line_of(m.start(1)), prec=None)
            i = mm.end()
            continue
        if cur is None:
            problems.append("parser.y:%d: symbol %s outside a rule" % (line_of(m.start(1)), t))
            continue
        cur["items"].append(("sym", t))
    flush()
    return out

REF = re.compile(r"\$(<[^>]*>)?(\$|-?[0-9]+)")

def action_refs(code):
    """positions n with a `$n` that is a use of the VALUE ($<line_no>n reads the line number)"""
    refs = set()
    if code is None:
        return refs
    code = strip_c_comments(code)
    for m in REF.finditer(code):
        if m.group(2) == "$":
            continue
        if m.group(1) and "val" not in m.group(1):
            continue
        refs.add(int(m.group(2)))
    return refs

def dtor_calls(code):
    """functions applied to `$$` in a destructor body"""
    code = strip_c_comments(code)
    kw = {"if", "while", "for", "switch", "sizeof", "return", "assert"}
    return sorted(set(m.group(1) for m in re.finditer(r"\b([A-Za-z_][A-Za-z0-9_]*)\s*\(\s*\$\$\s*\)", code)) - kw)

def scanner_heap_tokens(scanner_txt, root_members, types, problems):
    """tokens for which some scanner action stores into a pointer member of the value before `return TOK`"""
    src = strip_c_comments(scanner_txt)
    parts = re.split(r"^%%[ \t]*$", src, flags=re.M)
    if len(parts) < 2:
        problems.append("scanner.l: no rules section"); return {}
    rules = parts[1]
    owning = {}
    # statement-level scan: walk the rules text; every `return X;` closes a segment that began after the previous
    # `return`/start of the enclosing top-level action block
    i, n = 0, len(rules)
    depth = 0
    seg_start = 0
    pos = 0
    # find top-level action blocks
    blocks = []
    while pos < n:
        c = rules[pos]
        if c in "\"'":
            j = pos + 1
            while j < n and rules[j] != c and rules[j] != "\n":
                j += 2 if rules[j] == "\\" else 1
            pos = j + 1; continue
        if c == "[":      # flex character class: skip to the closing bracket (may contain quotes/braces)
            j = pos + 1
            while j < n and rules[j] != "]" and rules[j] != "\n":
                j += 2 if rules[j] == "\\" else 1
            pos = j + 1; continue
        if c == "{" and pos + 1 < n and (rules[pos + 1].isalpha() or rules[pos + 1] == "_") and re.match(r"\{[A-Za-z_][A-Za-z0-9_]*\}", rules[pos:]):
            pos = rules.find("}", pos) + 1; continue   # {NAME} pattern reference
        if c == "{" and pos + 1 < n and rules[pos + 1].isdigit():
            pos = rules.find("}", pos) + 1; continue   # {n,m} repetition
        if c == "{":
            e = match_brace(rules, pos)
            if e < 0:
                problems.append("scanner.l: unbalanced action block"); break
            blocks.append(rules[pos:e])
            pos = e; continue
        pos += 1
    assign = re.compile(r"tokp\s*->\s*([A-Za-z_][A-Za-z0-9_.]*)\s*=[^=]")
    ret = re.compile(r"\breturn\s+([^;]+);")
    for b in blocks:
        last = 0
        pend = []
        for m in ret.finditer(b):
            seg = b[last:m.start()]
            last = m.end()
            mems = [a.group(1) for a in assign.finditer(seg)]
            ptr = [mm for mm in mems if is_pointer(resolve_tag(mm, root_members, types))]
            unk = [mm for mm in mems if resolve_tag(mm, root_members, types) is None and mm != "line_no"]
            for u in unk:
                problems.append("scanner.l: store into tokp->%s: member not resolved" % u)
            tokname = m.group(1).strip()
            if ptr:
                if not re.match(r"^[A-Za-z_][A-Za-z0-9_]*$", tokname):
                    problems.append("scanner.l: heap value stored before `return %s` (token not a plain name)" % tokname)
                else:
                    owning.setdefault(tokname, set()).update(ptr)
        tail = b[last:]
        if any(is_pointer(resolve_tag(a.group(1), root_members, types)) for a in assign.finditer(tail)):
            problems.append("scanner.l: heap value stored into the token value without a following `return TOK`")
    return owning

def extract(repo=None):
    repo = repo or REPO
    problems = []
    front = os.path.join(repo, "front")
    ytxt = open(os.path.join(front, "parser.y"), errors="replace").read()
    ltxt = open(os.path.join(front, "scanner.l"), errors="replace").read()
    ynoc = strip_c_comments(ytxt)
    decl, rules_txt, _ = split_sections(ynoc)
    line0 = decl.count("\n") + 1
    d = parse_declarations(decl, problems)
    types, defines = load_c_types(front)
    # ---- value type
    if d["union"] is not None:
        root = parse_members(d["union"])
    else:
        vt = d["value_type"] or defines.get("YYSTYPE")
        vt = re.sub(r"^(struct|union)\s+", "", vt or "").strip()
        if not vt or vt not in types:
            problems.append("semantic value type not found (no %union, YYSTYPE=%r)" % vt)
            root = {}
        else:
            root = types[vt][1]
    # ---- bison's own reading: symbols, rules, automaton
    tmp = tempfile.mkdtemp(prefix="parsertab-")
    try:
        shutil.copy(os.path.join(front, "parser.y"), os.path.join(tmp, "parser.y"))
        r = subprocess.run(["bison", "-x", "-o", "parser.c", "parser.y"], cwd=tmp, stdout=subprocess.PIPE, stderr=subprocess.STDOUT, text=True)
        if r.returncode != 0 or not os.path.exists(os.path.join(tmp, "parser.xml")):
            problems.append("bison failed on parser.y: " + r.stdout[-500:])
            return dict(problems=problems, syms=[], rules=[])
        xml = ET.parse(os.path.join(tmp, "parser.xml")).getroot()
    finally:
        shutil.rmtree(tmp, ignore_errors=True)
    g = xml.find("grammar")
    syms = {}
    order = []
    for t in g.find("terminals"):
        nm = t.get("name")
        if nm in ("$end", "error", "$undefined", "YYEOF", "YYerror", "YYUNDEF"):
            continue
        if t.get("usefulness", "useful").startswith("unused") and nm.startswith("$"):
            continue
        syms[nm] = dict(name=nm, isToken=True, tag=t.get("type", "") or "")
        order.append(nm)
    for t in g.find("nonterminals"):
        nm = t.get("name")
        if nm.startswith("$") or nm.startswith("@"):
            continue
        syms[nm] = dict(name=nm, isToken=False, tag=t.get("type", "") or "")
        order.append(nm)
    xrules = []
    for rr in g.find("rules"):
        lhs = rr.find("lhs").text
        rhs = [s.text for s in rr.find("rhs") if s.tag == "symbol"]
        xrules.append(dict(num=int(rr.get("number")), lhs=lhs, rhs=rhs))
    # ---- automaton: pure default-reduction states
    pure = {}
    entered = {}
    for st in xml.find("automaton"):
        num = int(st.get("number"))
        acts = st.find("actions")
        trans = list(acts.find("transitions"))
        reds = list(acts.find("reductions"))
        pure[num] = (len(trans) == 0 and len(reds) == 1 and reds[0].get("symbol") == "$default" and reds[0].get("enabled") == "true")
        for tr in trans:
            entered.setdefault(tr.get("symbol"), set()).add(int(tr.get("state")))
    has_empty = set(r["lhs"] for r in xrules if not r["rhs"])
    # ---- text rules aligned with bison's rules (mid-rule actions are separate $@n rules for bison)
    trules = parse_rules_text(rules_txt, line0, problems)
    xmain = [r for r in xrules if r["num"] != 0 and not r["lhs"].startswith("$@") and not r["lhs"].startswith("@")]
    rules = []
    if len(trules) != len(xmain):
        problems.append("rules: text extraction found %d rules, bison %d" % (len(trules), len(xmain)))
    for tr, xr in zip(trules, xmain):
        trhs = [v for k, v in tr["items"]]
        xrhs = [("{}" if (s.startswith("$@") or s.startswith("@")) else s) for s in xr["rhs"]]
        t_norm = [("{}" if k == "{}" else v) for k, v in tr["items"]]
        if tr["lhs"] != xr["lhs"] or t_norm != xrhs:
            problems.append("parser.y:%d: rule %d read differently by the translator (%s: %s) and by bison (%s: %s)" %
                            (tr["line"], xr["num"], tr["lhs"], " ".join(t_norm), xr["lhs"], " ".join(xrhs)))
            continue
        refs = action_refs(tr["action"])
        for k, v in tr["items"]:
            if k == "{}":
                refs |= action_refs(v)
        rules.append(dict(num=xr["num"], lhs=tr["lhs"], rhs=t_norm, hasAction=tr["action"] is not None,
                          refs=sorted(x for x in refs if x > 0), isError=("error" in t_norm), line=tr["line"],
                          action=tr["action"] or ""))
    # ---- scanner
    owning_tokens = scanner_heap_tokens(ltxt, root, types, problems)
    for tk, mems in owning_tokens.items():
        if tk not in syms:
            problems.append("scanner.l returns %s with a heap value but parser.y does not declare the token" % tk)
        else:
            tag = syms[tk]["tag"]
            if not tag or any(mm != tag for mm in mems):
                problems.append("scanner.l stores %s for %s but the token's declared tag is <%s>" % (sorted(mems), tk, tag))
    # ---- destructors
    per_sym, per_tag, star, untagged = {}, {}, None, None
    for code, lst, line in d["destructors"]:
        calls = dtor_calls(code)
        ent = dict(code=" ".join(code.split()), calls=calls, line=line)
        for s in lst:
            if s == "<*>":
                star = ent
            elif s == "<>":
                untagged = ent
            elif s.startswith("<"):
                per_tag[s[1:-1].strip()] = ent
            else:
                if s not in syms:
                    problems.append("parser.y:%d: %%destructor names unknown symbol %s" % (line, s))
                if s in per_sym:
                    problems.append("parser.y:%d: second %%destructor for %s" % (line, s))
                per_sym[s] = ent
    start = d["start"] or (xmain[0]["lhs"] if xmain else None)
    pp = d["parse_params"]
    rows = []
    for nm in order:
        s = syms[nm]
        tag = s["tag"]
        cty = resolve_tag(tag, root, types) if tag else None
        if tag and cty is None:
            problems.append("symbol %s: tag <%s> not resolved to a C type" % (nm, tag))
        if s["isToken"]:
            owns = is_pointer(cty) and nm in owning_tokens
            disc = True
        else:
            owns = is_pointer(cty)
            ent_states = entered.get(nm, set())
            disc = (nm in has_empty) or any(not pure.get(q, False) for q in ent_states)
        ent = per_sym.get(nm) or (per_tag.get(tag) if tag else None) or (star if tag else untagged)
        handed = False
        if nm == start and pp:
            mine = [r for r in rules if r["lhs"] == nm]
            handed = bool(mine) and all(any(re.search(r"\*\s*%s\s*=[^=]" % re.escape(p), strip_c_comments(r["action"])) for p in pp) for r in mine)
        rows.append(dict(name=nm, isToken=s["isToken"], tag=tag, ctype=cty or "", ownsHeap=bool(owns),
                         hasDestructor=ent is not None, dtorCalls=(ent["calls"] if ent else []),
                         dtorLine=(ent["line"] if ent else 0), discardable=bool(disc), handedOut=handed))
    return dict(problems=problems, syms=rows, rules=rules, start=start, states=len(pure),
                pure_states=sum(1 for v in pure.values() if v))

def lean_str(s):
    return '"' + s.replace("\\", "\\\\").replace('"', '\\"') + '"'

def lean_bool(b):
    return "true" if b else "false"

def emit_lean(t):
    o = []
    o.append("/- GENERATED by gen/parsertab.py from front/parser.y, front/types.h, front/scanner.l and bison's")
    o.append("   XML report of parser.y.  Regenerated by checks/c16.py before every `lake build`; the committed copy")
    o.append("   is the table of the pinned tree.  Do not edit. -/")
    o.append("namespace Never.ParserTab")
    o.append("")
    o.append("/-- one grammar symbol of front/parser.y -/")
    o.append("structure Sym where")
    o.append("  name : String")
    o.append("  isToken : Bool")
    o.append("  tag : String            -- <tag> of %token/%type (member path of the value type)")
    o.append("  ctype : String          -- C type of that member")
    o.append("  pointee : String        -- `T` when the C type is `T *`, else empty")
    o.append("  ownsHeap : Bool         -- the value is a pointer the scanner/parser allocated")
    o.append("  hasDestructor : Bool    -- a %destructor applies (per symbol, per <tag>, <*>, <>)")
    o.append("  dtorCalls : List String -- functions the destructor applies to `$$`")
    o.append("  discardable : Bool      -- bison can pop it (error recovery / abort) before it is reduced")
    o.append("  handedOut : Bool        -- start symbol whose value is stored through the %parse-param")
    o.append("  deriving Repr, DecidableEq")
    o.append("")
    o.append("/-- one grammar rule; `refs` = the `$n` its action(s) use (line-number reads excluded) -/")
    o.append("structure Rule where")
    o.append("  num : Nat")
    o.append("  line : Nat")
    o.append("  lhs : String")
    o.append("  rhs : List String")
    o.append("  rhsIx : List Nat        -- index of each rhs symbol in `syms` (an index past the end: `error` / mid-rule action)")
    o.append("  hasAction : Bool")
    o.append("  refs : List Nat")
    o.append("  isError : Bool")
    o.append("  deriving Repr, DecidableEq")
    o.append("")
    o.append("def syms : List Sym := [")
    rows = []
    for s in t["syms"]:
        rows.append("  ⟨%s, %s, %s, %s, %s, %s, %s, [%s], %s, %s⟩" % (lean_str(s["name"]), lean_bool(s["isToken"]), lean_str(s["tag"]),
                    lean_str(s["ctype"]), lean_str(s["ctype"][:-1].strip() if s["ctype"].endswith("*") else ""), lean_bool(s["ownsHeap"]), lean_bool(s["hasDestructor"]),
                    ", ".join(lean_str(c) for c in s["dtorCalls"]), lean_bool(s["discardable"]), lean_bool(s["handedOut"])))
    o.append(",\n".join(rows))
    o.append("]")
    o.append("")
    o.append("def rules : List Rule := [")
    rows = []
    ix = {s["name"]: i for i, s in enumerate(t["syms"])}
    for r in t["rules"]:
        rows.append("  ⟨%d, %d, %s, [%s], [%s], %s, [%s], %s⟩" % (r["num"], r["line"], lean_str(r["lhs"]), ", ".join(lean_str(x) for x in r["rhs"]),
                    ", ".join(str(ix.get(x, len(t["syms"]))) for x in r["rhs"]),
                    lean_bool(r["hasAction"]), ", ".join(str(x) for x in r["refs"]), lean_bool(r["isError"])))
    o.append(",\n".join(rows))
    o.append("]")
    o.append("")
    o.append("end Never.ParserTab")
    return "\n".join(o) + "\n"

def generate(out=OUT, repo=None):
    """writes the Lean table (only when the content changed, so that lake does not rebuild needlessly);
    returns the extraction dict"""
    t = extract(repo)
    txt = emit_lean(t)
    os.makedirs(os.path.dirname(out), exist_ok=True)
    old = open(out).read() if os.path.exists(out) else None
    if old != txt:
        with open(out + ".tmp", "w") as fh:
            fh.write(txt)
        os.replace(out + ".tmp", out)
    return t

if __name__ == "__main__":
    t = generate(sys.argv[1] if len(sys.argv) > 1 else OUT)
    print("symbols %d rules %d states %d (pure default-reduction %d) problems %d" %
          (len(t["syms"]), len(t["rules"]), t.get("states", 0), t.get("pure_states", 0), len(t["problems"])))
    for p in t["problems"]:
        print("BROKEN-TIE:", p)
    own = [s for s in t["syms"] if s["ownsHeap"]]
    print("owning %d; without destructor: %s" % (len(own), [s["name"] for s in own if not s["hasDestructor"]]))
