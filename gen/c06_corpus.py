#!/usr/bin/env python3
"""(Re)writes corpus/tc/*.nev + *.sx: hand-kept core programs for C06, built with the same AST
classes and printer as the generator so that source text and s-expression agree line for line.
Header of each .nev:  # expect: accept | reject LINE RULE | reject known=<mutator name>"""
import os, sys
sys.path.insert(0, os.path.join(os.path.dirname(os.path.abspath(__file__)), "..", "checks"))
from c06_gen import *

OUT = os.path.join(os.path.dirname(os.path.abspath(__file__)), "..", "corpus", "tc")

def I(n): return N('i', str(n), ty='int')
def S(s): return N('s', '"%s"' % s, ty='string')
def ID(x): return N('id', x)
def CALL(f, *a): return N('call', ID(f) if isinstance(f, str) else f, list(a))
def SEQ(*items, body=False): return N('seq', list(items), body=body)
def LET(x, e): return N('let', x, e)
def VAR(x, e): return N('var', x, e)
def ASS(l, r): return N('ass', l, r)
def FN(name, params, rc, rty, *items, excs=None): return F(name, params, rc, rty, SEQ(*items, body=True), excs)
def BIN(op, l, r): return N('bin', op, l, r)

cases = []
def case(name, prog, bad=None, rule=None, known=None, accept=False, note=""):
    cases.append((name, prog, bad, rule, known, accept, note))

INT1 = ('fn', (('d', 'int'),), 'd', 'int')
STR1 = ('fn', (('d', 'int'),), 'd', 'string')
# --- former known finding (repaired in /repo 186dfd9): function-typed parameter of a function-typed parameter
call = CALL('apply', ID('k'))
case("known_fn_inner_result",
     Prog([], [FN('apply', [P('h', 'd', ('fn', (('d', INT1),), 'd', 'int'))], 'd', 'int',
                  LET('inc', N('fun', FN(None, [P('x', 'd', 'int')], 'd', 'int', BIN('add', ID('x'), I(1))))),
                  CALL('h', ID('inc'))),
               FN('k', [P('g', 'd', STR1)], 'd', 'int', CALL('prints', BIN('add', CALL('g', I(1)), S("\\n"))), I(0)),
               FN('main', [], 'd', 'int', call)]),
     call, 'callMismatch',
     note="regression for 186dfd9: apply(k), k's parameter returns string where (int) -> int is required (the pinned tree accepted it and ran with an int used as a string)")
# --- known finding 2: match with no guard at all
case("known_match_empty",
     Prog([D('enum', 'E', [['A', 0], ['B', 0]])],
          [FN('main', [], 'd', 'int', LET('e', N('ev', ID('E'), 'A')), N('match', ID('e'), []), I(0))]),
     known="match_empty", note="`match e { }` omits every enumerator and has no else")
# --- negative samples of /repo/sample that fit the core (first diagnostic)
a1 = ASS(ID('a'), ID('b'))
case("sample640_assign_let",
     Prog([], [FN('main', [], 'd', 'int', LET('a', I(10)), VAR('b', I(100)), a1, ASS(ID('a'), I(1000)), I(0))]), a1, 'assignConst')
arg = ID('a')
case("sample653_const_to_var_param",
     Prog([], [FN('f1', [P('a', 'v', 'int'), P('b', 'v', 'int')], 'd', 'int', I(0)),
               FN('main', [], 'd', 'int', LET('a', I(1)), LET('b', I(2)), CALL('f1', arg, ID('b')), I(0))]), arg, 'constToVarParam')
f655 = FN('f1', [P('a', 'd', 'int')], 'v', 'int', ID('a'))
case("sample655_const_result_of_var_function",
     Prog([], [f655, FN('main', [], 'd', 'int', LET('a', I(1)), ASS(CALL('f1', ID('a')), I(10)), I(0))]), f655.body, 'constToVarParam')
a670 = ASS(ID('x'), SEQ(I(20)))
case("sample670_assign_let_block",
     Prog([], [FN('main', [], 'd', 'int', LET('x', I(0)), a670, I(0))]), a670, 'assignConst')
a677 = ASS(ID('i'), I(10))
case("sample677_enum_from_int",
     Prog([D('enum', 'Index', [['Zero', 0], ['One', 0]])],
          [FN('main', [], 'd', 'int', VAR('i', N('ev', ID('Index'), 'Zero')), a677, I(0))]), a677, 'assignType')
a663 = ASS(N('attr', ID('r2'), 'a'), I(100))
case("sample663_let_field",
     Prog([D('record', 'R', [P('a', 'c', 'int'), P('b', 'c', 'int')])],
          [FN('main', [], 'd', 'int', VAR('r1', CALL('R', I(10), I(20))), LET('r2', ID('r1')), a663, I(0))]), a663, 'assignConst')
v665 = VAR('r2', ID('r1'))
case("sample665_var_from_let_record",
     Prog([D('record', 'R', [P('a', 'd', 'int'), P('b', 'd', 'int')])],
          [FN('main', [], 'd', 'int', LET('r1', CALL('R', I(10), I(20))), v665, I(0))]), v665, 'varFromConst')
a690 = ASS(ID('f2'), ID('f1'))
def lit0(n): return N('fun', FN(None, [], 'd', 'int', I(n)))
case("sample690_assign_let_func",
     Prog([], [FN('main', [], 'd', 'int', LET('f1', lit0(1000)), LET('f2', lit0(2000)), a690, I(0))]), a690, 'assignConst')
w = N('while', BIN('lte', ID('i'), I(10)), SEQ(ASS(ID('i'), BIN('add', ID('i'), I(1)))), ty='int')
a674 = ASS(w, I(55))
case("sample674_assign_to_while",
     Prog([], [FN('main', [], 'd', 'int', VAR('i', I(0)), a674, I(0))]), a674, 'assignConst')
# --- accepted oddities the model mirrors
case("accept_block_lvalue_sample672",
     Prog([], [FN('main', [], 'd', 'int', VAR('x', I(0)), ASS(SEQ(ID('x')), I(20)), I(0))]), accept=True,
     note="{ x } = 20 is only a warning")
case("accept_field_of_let_record",
     Prog([D('record', 'R', [P('a', 'd', 'int')])],
          [FN('main', [], 'd', 'int', LET('r', CALL('R', I(1))), ASS(N('attr', ID('r'), 'a'), I(5)), I(0))]), accept=True,
     note="a field is var by default even through a let binding of the record")
case("accept_int_from_double",
     Prog([], [FN('main', [], 'd', 'int', VAR('i', I(1)), VAR('d', N('d', '2.5d')), ASS(ID('i'), ID('d')), I(0))]), accept=True,
     note="numeric kinds convert on assignment; the wrong run-time tag of this cell is C11/C01's finding, not a typing fault")

case("accept_int_from_double_result_is_int",
     Prog([], [FN('main', [], 'd', 'int', VAR('i', I(1)), VAR('d', N('d', '2.5d')),
                  VAR('j', BIN('mod', N('sup', ASS(ID('i'), ID('d'))), I(2))), ID('j'))]), accept=True,
     note="(i = d) has the LEFT kind int, so `% 2` applies (8e26181; the pinned tree typed the assignment double and rejected this)")

os.makedirs(OUT, exist_ok=True)
for name, prog, bad, rule, known, accept, note in cases:
    src, sx = render(prog, None, start_line=3)
    if accept:
        head = "# expect: accept"
    elif known:
        head = "# expect: reject known=%s" % known
    else:
        head = "# expect: reject %d %s" % (bad.ln, rule)
    open(os.path.join(OUT, name + ".nev"), "w").write(head + "\n# " + (note or name) + "\n" + src)
    open(os.path.join(OUT, name + ".sx"), "w").write(sx + "\n")
print("wrote", len(cases), "cases to", OUT)
