#!/usr/bin/env python3
"""Translator (T) for C16: the ownership table of the `*_delete` / `*_new*` functions of front/ and back/.

From clang-14's typed JSON AST of EVERY translation unit of front/ and back/ (sources as built by checks/buildimpl.py, so
parser.c / scanner.c are what bison/flex generate from the current parser.y / scanner.l) this extracts

  * the struct types that have a delete function: a function of the `*_delete*` family whose first parameter is `S *` and
    which frees that parameter (`free(v)`); helpers of the family that take the same `S *` without freeing it
    (`func_delete_native`, `expr_delete_enumtype`) are inlined at their call sites;
  * every pointer-typed member of such a struct, as a member path from the struct (`comb.func.comb_ret`, `id.id`,
    `wb_list[0]`), with its byte offset (computed by clang itself: `offsetof` in an enum initialiser, read back from the
    AST), its pointee type and whether it lies inside a union;
  * per delete function, by a SYMBOLIC WALK of its body: for every value of the tag the function switches on
    (`switch (v->type)`; fall-through followed) and for the statements outside the switch, the list of releases
    `(member path, releasing function, under a NULL guard?, other condition, list chain)`; `free(v)` itself;
  * per constructor (`S * S_new*(…)`: malloc/calloc of the struct, or a call of another constructor, then member
    assignments, then `return`): the tag it stores and for every pointer member the source of the value — a parameter
    (ownership handed in), a fresh allocation (`strdup`, `malloc`, `T_new…`), NULL, or something else (text kept);
  * for constructors whose tag is a parameter (`expr_new_one(int type, …)`): the constants passed at every call site of
    the whole tree (parser.c included);
  * retagging sites: assignments `x->type = CONST` to the tag member of such a struct outside its constructors, with the
    tags the enclosing `case` / `if (x->type == …)` allows before, the members of the node the function releases or hands
    on, and the members it stores.

Output: lean/NeverModel/Gen/OwnTab.lean.  A statement or expression shape the walker does not know raises `Unrecognised`
(a broken tie): nothing is ever skipped silently.  `generate()` returns the table with a `problems` list; the Lean file carries
the same list (`OwnTab.problems`, so `own_table_consistent` fails) and the caller (checks/c16.py) reports the broken tie.
Also: for every function, the local variables that receive a fresh allocation and whether some path loses it (class `Esc`)."""
import os, sys, json, subprocess, glob, hashlib, pickle, re
from concurrent.futures import ProcessPoolExecutor

HERE = os.path.dirname(os.path.abspath(__file__))
OUT_DIR = os.path.join(os.path.dirname(HERE), "lean", "NeverModel", "Gen")

class Unrecognised(Exception):
    pass

TRANSPARENT = ("ImplicitCastExpr", "ParenExpr", "ConstantExpr")
ALLOCATORS = ("malloc", "calloc", "realloc")
INC = ("include", "front", "back", ".")

def clang(src, args):
    p = subprocess.run(["clang-14", "-fsyntax-only", "-w", "-Xclang", "-ast-dump=json"] + ["-I" + d for d in INC] + args,
                       cwd=src, stdout=subprocess.PIPE, stderr=subprocess.PIPE)
    if p.returncode != 0 or not p.stdout:
        raise Unrecognised("clang-14 failed on %s: %s" % (args[-1], p.stderr.decode()[-300:]))
    return p.stdout

# ------------------------------------------------------------------ small helpers over clang's JSON

def strip(e):
    while e.get("kind") in TRANSPARENT and e.get("inner"):
        e = e["inner"][0]
    return e

def strip_casts(e):
    while e.get("kind") in TRANSPARENT + ("CStyleCastExpr",) and e.get("inner"):
        if e.get("kind") == "CStyleCastExpr" and e.get("castKind") == "NullToPointer":
            return e
        e = e["inner"][0]
    return e

def is_null(e):
    e = strip(e)
    if e.get("kind") == "CStyleCastExpr" and e.get("castKind") == "NullToPointer":
        return True
    if e.get("kind") == "ImplicitCastExpr" and e.get("castKind") == "NullToPointer":
        return True
    return False

def is_null_deep(e):
    """NULL possibly under implicit casts that carry the NullToPointer kind themselves"""
    while True:
        if e.get("castKind") == "NullToPointer":
            return True
        if e.get("kind") in TRANSPARENT + ("CStyleCastExpr",) and e.get("inner"):
            e = e["inner"][0]; continue
        return False

def qual(e):
    return e.get("type", {}).get("qualType", "")

def norm_type(t):
    """`struct expr *` / `expr *` / `const char *` -> (`expr`, number of stars)"""
    t = t.strip()
    stars = 0
    m = re.match(r"^(.*?)((?:\s*\*\s*(?:const\s*)?)*)$", t)
    base, tail = m.group(1), m.group(2)
    stars = tail.count("*")
    base = re.sub(r"\b(const|volatile|struct|union|enum)\b", "", base).strip()
    return base, stars

def callee_name(call):
    c = strip(call["inner"][0])
    if c.get("kind") == "DeclRefExpr" and c.get("referencedDecl", {}).get("kind") == "FunctionDecl":
        return c["referencedDecl"]["name"]
    return None

def called_functions(n, acc):
    if n.get("kind") == "CallExpr":
        acc.append(callee_name(n))
    for c in n.get("inner", []):
        called_functions(c, acc)
    return acc

def is_assert(stmt):
    """expansion of assert(...): an expression statement whose only call is __assert_fail"""
    if stmt.get("kind") not in ("ParenExpr", "ConditionalOperator", "CStyleCastExpr", "BinaryOperator"):
        return False
    return called_functions(stmt, []) == ["__assert_fail"]

def ctext(e):
    """C text of an expression (best effort; only used for conditions and `other` sources, never for decisions)"""
    k = e.get("kind")
    if is_null_deep(e) and k in TRANSPARENT + ("CStyleCastExpr",):
        return "NULL"
    if k in TRANSPARENT:
        inner = ctext(e["inner"][0])
        return "(" + inner + ")" if k == "ParenExpr" else inner
    if k == "CStyleCastExpr":
        return ctext(e["inner"][0])
    if k == "DeclRefExpr":
        return e["referencedDecl"]["name"]
    if k == "MemberExpr":
        base = ctext(e["inner"][0])
        if e.get("name", "") == "":
            return base
        b0 = strip(e["inner"][0])
        arrow = e.get("isArrow")
        if b0.get("kind") == "MemberExpr" and b0.get("name", "") == "":
            arrow = b0.get("isArrow")
        return base + ("->" if arrow else ".") + e["name"]
    if k == "ArraySubscriptExpr":
        return "%s[%s]" % (ctext(e["inner"][0]), ctext(e["inner"][1]))
    if k == "BinaryOperator":
        return "%s %s %s" % (ctext(e["inner"][0]), e["opcode"], ctext(e["inner"][1]))
    if k == "UnaryOperator":
        return (e["opcode"] + ctext(e["inner"][0])) if not e.get("isPostfix") else (ctext(e["inner"][0]) + e["opcode"])
    if k in ("IntegerLiteral", "FloatingLiteral"):
        return str(e.get("value"))
    if k == "CharacterLiteral":
        return str(e.get("value"))
    if k == "StringLiteral":
        return e.get("value", '""')
    if k == "CallExpr":
        return "%s(%s)" % (ctext(e["inner"][0]), ", ".join(ctext(a) for a in e["inner"][1:]))
    if k == "ConditionalOperator":
        return "%s ? %s : %s" % tuple(ctext(x) for x in e["inner"][:3])
    if k == "UnaryExprOrTypeTraitExpr":
        return "sizeof(%s)" % (e.get("argType", {}).get("qualType") or (ctext(e["inner"][0]) if e.get("inner") else "?"))
    return "<%s>" % k

# ------------------------------------------------------------------ per translation unit (worker process)

def record_fields(rec):
    """member tree of a complete RecordDecl: list of dict(name, type, sub=None|tree, union=bool of sub)"""
    out, pending = [], None
    for c in rec.get("inner", []):
        k = c.get("kind")
        if k == "RecordDecl":
            if c.get("completeDefinition"):
                pending = c
            continue
        if k != "FieldDecl":
            continue
        t = qual(c)
        sub, sub_union = None, False
        if ("unnamed" in t or "anonymous" in t) and "*" not in t:
            if pending is None:
                raise Unrecognised("member %s of %s has an inline type without a definition" % (c.get("name"), rec.get("name")))
            sub, sub_union = record_fields(pending), pending.get("tagUsed") == "union"
            pending = None
        out.append(dict(name=c.get("name", ""), type=t, sub=sub, union=sub_union))
    return out

def tu_worker(arg):
    src, rel = arg
    d = json.loads(clang(src, [rel]))
    cur = [None]
    def see(loc):
        if not isinstance(loc, dict):
            return
        for key in ("spellingLoc", "expansionLoc"):
            if key in loc:
                see(loc[key])
        if "file" in loc:
            cur[0] = loc["file"]
    def sweep(n):
        see(n.get("loc"))
        r = n.get("range")
        if r:
            see(r.get("begin")); see(r.get("end"))
        for c in n.get("inner", []):
            sweep(c)
    records, enums, typedefs, funcs, calls, retag_fns, summ = {}, {}, {}, {}, [], {}, {}
    local_rows = []
    anon = None
    for n in d.get("inner", []):
        see(n.get("loc"))
        f = cur[0]
        project = bool(f) and not os.path.isabs(f)
        k = n.get("kind")
        if k == "RecordDecl" and n.get("completeDefinition") and project:
            if n.get("name"):
                records[n["name"]] = dict(file=f, union=n.get("tagUsed") == "union", fields=record_fields(n))
            else:
                anon = n
        elif k == "EnumDecl" and project and n.get("name"):
            enums[n["name"]] = [c["name"] for c in n.get("inner", []) if c.get("kind") == "EnumConstantDecl"]
        elif k == "TypedefDecl" and project:
            t = n.get("type", {}).get("qualType", "")
            base, stars = norm_type(t)
            if stars == 0:
                typedefs[n["name"]] = base
                if anon is not None and ("unnamed" in t or "anonymous" in t):
                    records[n["name"]] = dict(file=f, union=anon.get("tagUsed") == "union", fields=record_fields(anon))
                    anon = None
        elif k == "FunctionDecl" and project and any(c.get("kind") == "CompoundStmt" for c in n.get("inner", [])):
            name = n["name"]
            generated = os.path.basename(f) in ("parser.c", "scanner.c")
            if ("_delete" in name or "_new" in name) and not generated:
                funcs[name] = dict(file=f, decl=n)
            # call sites of constructors with their constant arguments; tag stores outside constructors
            scan_function(n, name, calls, retag_fns, f)
            if not generated:
                summ[name] = summarise(n, f)
                e = Esc(name)
                def coll(x):
                    if x.get("kind") == "VarDecl" and x.get("storageClass") != "static":
                        e.locals.add(x["name"])
                    for c in x.get("inner", []):
                        coll(c)
                coll(n)
                e.run(n)
                lost = {}
                for (_, var, alloc, how) in e.rows:
                    lost.setdefault((var, alloc), []).append(how)
                for (var, alloc) in sorted(set(e.tracked)):
                    local_rows.append(dict(file=f, fn=name, var=var, alloc=alloc, lost=sorted(set(lost.get((var, alloc), [])))))
        sweep_rest(n, see)
    return dict(file=rel, records=records, enums=enums, typedefs=typedefs, funcs=funcs, calls=calls, retag_fns=retag_fns, summ=summ, local_rows=local_rows)

def rhs_kind(rhs):
    r = strip_casts(rhs)
    if is_null_deep(rhs):
        return ("null", "")
    k = r.get("kind")
    if k == "DeclRefExpr":
        d = r["referencedDecl"]
        if d.get("kind") == "EnumConstantDecl":
            return ("const", d["name"])
        if d.get("kind") == "ParmVarDecl":
            return ("param", d["name"])
        return ("local", d.get("name", ""))
    if k == "CallExpr":
        return ("fresh", callee_name(r) or "?")
    if k in ("IntegerLiteral", "CharacterLiteral", "FloatingLiteral"):
        return ("scalar", str(r.get("value")))
    if k in ("MemberExpr", "ArraySubscriptExpr"):
        return ("borrow", ctext(r))
    if k == "UnaryOperator" and r.get("opcode") == "&":
        return ("borrow", ctext(r))
    return ("other", ctext(r))

def member_store(lhs):
    """`X->a.b` with X a variable or parameter: (base kind, base name, pointee type of X, member path) or None"""
    e = strip(lhs)
    names = []
    while e.get("kind") == "MemberExpr":
        if e.get("name", "") != "":
            names.append(e["name"])
        b = strip(e["inner"][0])
        if e.get("isArrow"):
            t, stars = norm_type(qual(b))
            if stars != 1:
                return None
            if b.get("kind") == "DeclRefExpr" and b["referencedDecl"].get("kind") in ("ParmVarDecl", "VarDecl"):
                d = b["referencedDecl"]
                return ("param" if d["kind"] == "ParmVarDecl" else "local", d["name"], t, ".".join(reversed(names)))
            return ("expr", ctext(b), t, ".".join(reversed(names)))
        if b.get("kind") == "ArraySubscriptExpr":
            # `X[i].a.b`: an element of an array of structs
            a = strip(b["inner"][0])
            t, stars = norm_type(qual(a))
            if stars == 1 and a.get("kind") == "DeclRefExpr" and a["referencedDecl"].get("kind") in ("ParmVarDecl", "VarDecl"):
                d = a["referencedDecl"]
                return ("param" if d["kind"] == "ParmVarDecl" else "local", d["name"] + "[]", t, ".".join(reversed(names)))
            return None
        e = b
    return None

def summarise(fn, file):
    """stores `X->member = …` and calls that forward a parameter, of one function (compact; used for helpers that a
    constructor hands its new node to, and for the table of stores outside constructors)"""
    params = [(c["name"], qual(c)) for c in fn.get("inner", []) if c.get("kind") == "ParmVarDecl"]
    pn = [p[0] for p in params]
    stores, forwards = [], []
    ncalls = {}
    def case_labels(c, labels):
        kk = c.get("kind")
        if kk == "CaseStmt":
            lab = strip_casts(c["inner"][0])
            if lab.get("kind") == "ConstantExpr":
                lab = strip_casts(lab["inner"][0])
            labels.append(lab.get("referencedDecl", {}).get("name", "?"))
            return case_labels(c["inner"][-1], labels)
        if kk == "DefaultStmt":
            labels.append("*")
            return case_labels(c["inner"][-1], labels)
        return c
    def go(n, ctx=None):
        k = n.get("kind")
        if k == "SwitchStmt":
            sel = strip(n["inner"][0])
            body = n["inner"][1]
            if sel.get("kind") == "MemberExpr" and sel.get("isArrow") and body.get("kind") == "CompoundStmt":
                b = strip(sel["inner"][0])
                if b.get("kind") == "DeclRefExpr" and b["referencedDecl"].get("kind") in ("ParmVarDecl", "VarDecl"):
                    var, member = b["referencedDecl"]["name"], sel.get("name", "")
                    cur, fell = [], True
                    for c in body.get("inner", []):
                        if c.get("kind") in ("CaseStmt", "DefaultStmt"):
                            if not fell:
                                cur = []
                            st = case_labels(c, cur)
                        else:
                            st = c
                        fell = st.get("kind") not in ("BreakStmt", "ReturnStmt")
                        go(st, (var, member, list(cur)))
                    return
        if k == "CallExpr":
            cn0 = callee_name(n)
            if cn0:
                ncalls[cn0] = ncalls.get(cn0, 0) + 1
                if ctx is not None:
                    for i, a in enumerate(n["inner"][1:]):
                        a0 = strip_casts(a)
                        if a0.get("kind") == "DeclRefExpr" and a0["referencedDecl"].get("name") == ctx[0]:
                            labelled.append((cn0, i, ctx[1], ctx[2]))
        if k == "BinaryOperator" and n.get("opcode") == "=":
            m = member_store(n["inner"][0])
            if m is not None:
                stars = norm_type(qual(strip(n["inner"][0])))[1]
                kind, arg = rhs_kind(n["inner"][1])
                if stars >= 1 or kind == "const":
                    stores.append(m + (stars, kind, arg))
        if k == "CallExpr":
            cn = callee_name(n)
            for i, a in enumerate(n["inner"][1:]):
                a0 = strip_casts(a)
                if a0.get("kind") == "DeclRefExpr" and a0["referencedDecl"].get("kind") == "ParmVarDecl" and a0["referencedDecl"]["name"] in pn:
                    forwards.append((cn, i, a0["referencedDecl"]["name"]))
        for c in n.get("inner", []):
            go(c, ctx)
    labelled = []
    go(fn)
    return dict(file=file, params=params, stores=stores, forwards=forwards, labelled=labelled, ncalls=ncalls)

def sweep_rest(n, see):
    r = n.get("range")
    if r:
        see(r.get("begin")); see(r.get("end"))
    for c in n.get("inner", []):
        see(c.get("loc"))
        sweep_rest(c, see)

def scan_function(fn, name, calls, retag_fns, file):
    found = [False]
    def go(n):
        k = n.get("kind")
        if k == "CallExpr":
            cn = callee_name(n)
            if cn and "_new" in cn:
                consts = []
                for i, a in enumerate(n["inner"][1:]):
                    a0 = strip_casts(a)
                    if a0.get("kind") == "DeclRefExpr" and a0.get("referencedDecl", {}).get("kind") == "EnumConstantDecl":
                        consts.append((i, "const", a0["referencedDecl"]["name"]))
                    elif a0.get("kind") == "DeclRefExpr" and a0.get("referencedDecl", {}).get("kind") == "ParmVarDecl":
                        consts.append((i, "param", a0["referencedDecl"]["name"]))
                    elif a0.get("kind") == "IntegerLiteral":
                        consts.append((i, "int", a0.get("value")))
                    else:
                        consts.append((i, "expr", ""))
                calls.append((name, cn, consts))
        if k == "BinaryOperator" and n.get("opcode") == "=":
            lhs = strip(n["inner"][0])
            rhs = strip_casts(n["inner"][1])
            if lhs.get("kind") == "MemberExpr" and rhs.get("kind") == "DeclRefExpr" and \
               rhs.get("referencedDecl", {}).get("kind") == "EnumConstantDecl":
                found[0] = True
        for c in n.get("inner", []):
            go(c)
    go(fn)
    if found[0] and "_new" not in name:
        retag_fns[name] = dict(file=file, decl=fn)

# ------------------------------------------------------------------ the table

class Tab:
    def __init__(self, src, parts):
        self.src = src
        self.records, self.enums, self.typedefs, self.funcs = {}, {}, {}, {}
        self.calls, self.retag_fns, self.summ, self.local_rows = [], {}, {}, []
        self.problems = []
        for p in parts:
            for k, v in p["records"].items():
                if k in self.records and self.records[k]["fields"] != v["fields"]:
                    self.problems.append("struct %s is defined differently in %s and %s" % (k, self.records[k]["file"], v["file"]))
                self.records.setdefault(k, v)
            for k, v in p["enums"].items():
                self.enums.setdefault(k, v)
            for k, v in p["typedefs"].items():
                self.typedefs.setdefault(k, v)
            for k, v in p["funcs"].items():
                if k in self.funcs and self.funcs[k]["file"] != v["file"]:
                    # static helpers with the same name in two files would be ambiguous
                    self.problems.append("function %s is defined in %s and in %s" % (k, self.funcs[k]["file"], v["file"]))
                self.funcs.setdefault(k, v)
            self.calls += [(p["file"],) + c for c in p["calls"]]
            for k, v in p["retag_fns"].items():
                self.retag_fns.setdefault(k, v)
            for k, v in p["summ"].items():
                self.summ.setdefault(k, v)
            self.local_rows += p["local_rows"]
        self.const_enum = {}
        for en, cs in self.enums.items():
            for c in cs:
                self.const_enum[c] = en

    def resolve(self, name):
        seen = set()
        while name in self.typedefs and self.typedefs[name] != name and name not in seen:
            seen.add(name)
            name = self.typedefs[name]
        return name

    def record_of(self, tname):
        """record description for a type name (typedef or tag), or None (foreign / opaque type)"""
        if tname in self.records:
            return self.records[tname]
        r = self.resolve(tname)
        return self.records.get(r)

    def enum_of(self, tname):
        if tname in self.enums:
            return tname
        r = self.resolve(tname)
        return r if r in self.enums else None

    # member paths ---------------------------------------------------------------------------------
    def pointer_paths(self, sname):
        """[(path, pointee, in_union, enum-typed?)] for every pointer member reachable by value from struct `sname`;
        also returns the enum-typed scalar members (candidates for the tag)"""
        rec = self.record_of(sname)
        out, tags = [], []
        def go(fields, prefix, in_union):
            for f in fields:
                p = prefix + f["name"] if f["name"] else prefix.rstrip(".")
                nxt = (p + ".") if f["name"] else prefix
                if f["sub"] is not None:
                    go(f["sub"], nxt, in_union or f["union"])
                    continue
                t = f["type"]
                if "(*)" in t:
                    continue                       # function pointer: code, nothing to release
                m = re.match(r"^(.*?)\s*\[(\d+)\]$", t)
                if m:
                    base, stars = norm_type(m.group(1))
                    if stars >= 1:
                        n = int(m.group(2))
                        if n > 8:
                            raise Unrecognised("array member %s.%s of %d pointers" % (sname, p, n))
                        for i in range(n):
                            out.append(("%s[%d]" % (p, i), base + " *" * (stars - 1), in_union))
                    elif self.record_of(base) is not None and self.has_pointer(base):
                        raise Unrecognised("array member %s.%s of structs with pointers" % (sname, p))
                    continue
                base, stars = norm_type(t)
                if stars >= 1:
                    out.append((p, base + " *" * (stars - 1), in_union))
                elif self.enum_of(base):
                    tags.append((p, self.enum_of(base)))
                else:
                    sub = self.record_of(base)
                    if sub is not None:
                        go(sub["fields"], p + ".", in_union or sub["union"])
        go(rec["fields"], "", rec["union"])
        return out, tags

    def has_pointer(self, sname):
        try:
            return bool(self.pointer_paths(sname)[0])
        except Unrecognised:
            return True

# ------------------------------------------------------------------ symbolic values

class Path:
    """a member path from the parameter of the function under walk; steps are text pieces"""
    def __init__(self, text="", tname="", stars=1):
        self.text, self.tname, self.stars = text, tname, stars
    def __repr__(self):
        return "Path(%r:%s%s)" % (self.text, self.tname, "*" * self.stars)

class Index:
    pass

class Scalar:
    def __init__(self, text=""):
        self.text = text

class Rel:
    def __init__(self, path, fn, guarded, cond, chain=""):
        self.path, self.fn, self.guarded, self.cond, self.chain = path, fn, guarded, cond, chain
    def key(self):
        return (self.path, self.fn, self.guarded, self.cond, self.chain)

class Ctx:
    def __init__(self, guards=(), conds=()):
        self.guards, self.conds = tuple(guards), tuple(conds)
    def add(self, guards=(), conds=()):
        return Ctx(self.guards + tuple(guards), self.conds + tuple(conds))

class Walker:
    """common part of the delete walker and the constructor walker: evaluation of lvalue paths"""
    def __init__(self, tab, fname):
        self.tab, self.fname = tab, fname
        self.env = {}

    def bad(self, what, node=None):
        raise Unrecognised("%s: %s%s" % (self.fname, what, (" `%s`" % ctext(node)) if node is not None else ""))

    def ev(self, e):
        """symbolic value of an expression: Path / Index / Scalar / None (unknown)"""
        e = strip(e)
        k = e.get("kind")
        if k == "CStyleCastExpr":
            if is_null_deep(e):
                return Scalar("NULL")
            return self.ev(e["inner"][0])
        if k == "DeclRefExpr":
            d = e["referencedDecl"]
            if d.get("kind") in ("VarDecl", "ParmVarDecl") and d["name"] in self.env:
                return self.env[d["name"]]
            return Scalar(d.get("name", "?"))
        if k == "MemberExpr":
            b = self.ev(e["inner"][0])
            if not isinstance(b, Path):
                return None
            name = e.get("name", "")
            base_t, stars = norm_type(qual(e))
            if name == "":
                return Path(b.text, b.tname, b.stars)        # anonymous member: same place
            if e.get("isArrow"):
                sep = "" if b.text == "" else "->"
            else:
                sep = "" if b.text == "" or b.text.endswith("]") and False else "."
            if b.text == "":
                text = name
            elif e.get("isArrow"):
                text = b.text + "->" + name
            else:
                text = b.text + "." + name
            return Path(text, base_t, stars)
        if k == "ArraySubscriptExpr":
            b = self.ev(e["inner"][0])
            i = self.ev(e["inner"][1])
            if not isinstance(b, Path):
                return None
            base_t, stars = norm_type(qual(e))
            if isinstance(i, Index):
                return Path(b.text + "[]", base_t, stars)
            i0 = strip(e["inner"][1])
            if i0.get("kind") == "IntegerLiteral":
                return Path(b.text + "[%s]" % i0["value"], base_t, stars)
            self.bad("subscript that is neither the loop index nor a constant", e)
        if k in ("IntegerLiteral", "CharacterLiteral"):
            return Scalar(str(e.get("value")))
        return None

# ------------------------------------------------------------------ delete functions

class DelWalker(Walker):
    def __init__(self, tab, fname):
        super().__init__(tab, fname)
        self.common, self.arms, self.tag_path, self.tag_enum = [], None, "", ""
        self.frees_self = False
        self.cur = self.common
        self.in_arm = False
        self.stack = []

    def run(self):
        fn = self.tab.funcs[self.fname]["decl"]
        params = [c for c in fn["inner"] if c.get("kind") == "ParmVarDecl"]
        body = [c for c in fn["inner"] if c.get("kind") == "CompoundStmt"][0]
        if not params:
            self.bad("no parameter")
        base, stars = norm_type(qual(params[0]))
        self.struct, self.is_array = base, len(params) > 1
        if stars < 1:
            self.bad("first parameter is not a pointer")
        self.param_stars = stars
        self.env[params[0]["name"]] = Path("", base, stars)
        for p in params[1:]:
            b2, s2 = norm_type(qual(p))
            if s2 != 0:
                self.bad("a second pointer parameter `%s`" % p["name"])
            self.env[p["name"]] = Scalar(p["name"])
        self.block(body, Ctx())
        return self

    # statements ---------------------------------------------------------------------------------
    def block(self, s, ctx):
        k = s.get("kind")
        if k == "CompoundStmt":
            items = s.get("inner", [])
            i = 0
            while i < len(items):
                # list loop: `N * node = P; while (node != NULL) { N * tmp = node->next; F(node); node = tmp; }`
                if i + 1 < len(items) and self.list_loop(items[i], items[i + 1], ctx):
                    i += 2; continue
                self.block(items[i], ctx)
                i += 1
            return
        if k == "NullStmt":
            return
        if k == "DeclStmt":
            for v in s.get("inner", []):
                if v.get("kind") != "VarDecl":
                    self.bad("declaration of a %s" % v.get("kind"))
                init = [c for c in v.get("inner", []) if "Expr" in c.get("kind", "") or c.get("kind", "").endswith("Literal") or c.get("kind") in ("BinaryOperator", "UnaryOperator")]
                if not init:
                    self.env[v["name"]] = Scalar(v["name"]); continue
                val = self.ev(init[0])
                if isinstance(val, Path):
                    self.env[v["name"]] = val
                elif isinstance(val, Scalar) and norm_type(qual(v))[1] == 0:
                    self.env[v["name"]] = Index() if val.text == "0" else Scalar(v["name"])
                else:
                    self.bad("local `%s` initialised from" % v["name"], init[0])
            return
        if k == "IfStmt":
            inner = s["inner"]
            cond, then = inner[0], inner[1]
            els = inner[2] if len(inner) > 2 else None
            guards, conds, negated_root = self.cond(cond)
            if negated_root:
                # `if (v == NULL) return;`
                if then.get("kind") == "ReturnStmt" or (then.get("kind") == "CompoundStmt" and [c.get("kind") for c in then.get("inner", [])] == ["ReturnStmt"]):
                    if els is not None:
                        self.bad("else after an early return")
                    return
                self.bad("test of the parameter itself that is not an early return", cond)
            self.block(then, ctx.add(guards, conds))
            if els is not None:
                self.block(els, ctx.add((), ("!(%s)" % ctext(cond),)))
            return
        if k == "SwitchStmt":
            self.switch(s, ctx); return
        if k == "ForStmt":
            self.for_loop(s, ctx); return
        if k == "WhileStmt":
            self.bad("a while loop that is not the list loop")
        if k == "BreakStmt":
            self.bad("break outside a switch")
        if k == "ReturnStmt":
            if s.get("inner"):
                self.bad("return of a value")
            self.bad("return in the middle of a delete function")
        if is_assert(s):
            return
        e = strip(s)
        if e.get("kind") == "CallExpr":
            self.call(e, ctx); return
        if e.get("kind") == "BinaryOperator" and e.get("opcode") == "=":
            lhs = self.ev(e["inner"][0])
            if isinstance(lhs, Path) and is_null_deep(e["inner"][1]):
                return                              # `v->f = NULL;` after a release
            if isinstance(lhs, (Scalar, Index)):
                return
            self.bad("assignment", e)
        if e.get("kind") == "UnaryOperator" and e.get("opcode") in ("++", "--"):
            return
        self.bad("statement kind %s" % k, s if "Expr" in k or "Operator" in k else None)

    def cond(self, c):
        """-> (guards: paths known non-NULL, conds: other condition texts, negated_root)"""
        c = strip(c)
        if c.get("kind") == "BinaryOperator" and c.get("opcode") == "&&":
            g1, c1, n1 = self.cond(c["inner"][0])
            g2, c2, n2 = self.cond(c["inner"][1])
            if n1 or n2:
                self.bad("condition", c)
            return g1 + g2, c1 + c2, False
        if c.get("kind") == "BinaryOperator" and c.get("opcode") in ("!=", "=="):
            a, b = c["inner"]
            if is_null_deep(b) or is_null_deep(a):
                p = self.ev(a if is_null_deep(b) else b)
                if isinstance(p, Path):
                    if c["opcode"] == "!=":
                        return (p.text,), (), False
                    if p.text == "":
                        return (), (), True
                    return (), (self.ctext_rel(c),), False
        if c.get("kind") == "UnaryOperator" and c.get("opcode") == "!":
            p = self.ev(c["inner"][0])
            if isinstance(p, Path) and p.text == "":
                return (), (), True
        p = self.ev(c)
        if isinstance(p, Path):
            return (p.text,), (), False
        return (), (self.ctext_rel(c),), False

    def ctext_rel(self, e):
        """condition text with the parameter and loop index normalised"""
        t = ctext(e)
        for name, val in self.env.items():
            if isinstance(val, Path) and val.text == "":
                t = re.sub(r"\b%s->" % re.escape(name), "", t)
                t = re.sub(r"\b%s\[" % re.escape(name), "[", t)
            if isinstance(val, Index):
                t = re.sub(r"\[%s\]" % re.escape(name), "[]", t)
        return t

    def list_loop(self, s0, s1, ctx):
        if s0.get("kind") != "DeclStmt" or s1.get("kind") != "WhileStmt":
            return False
        vs = s0.get("inner", [])
        if len(vs) != 1 or vs[0].get("kind") != "VarDecl" or not vs[0].get("inner"):
            return False
        node = vs[0]["name"]
        start = self.ev(vs[0]["inner"][-1])
        if not isinstance(start, Path):
            return False
        cond, body = s1["inner"][0], s1["inner"][1]
        c = strip(cond)
        ok = False
        if c.get("kind") == "BinaryOperator" and c.get("opcode") == "!=" and is_null_deep(c["inner"][1]):
            l = strip(c["inner"][0])
            ok = l.get("kind") == "DeclRefExpr" and l["referencedDecl"]["name"] == node
        elif c.get("kind") == "DeclRefExpr" and c["referencedDecl"]["name"] == node:
            ok = True
        if not ok or body.get("kind") != "CompoundStmt":
            return False
        st = body.get("inner", [])
        if len(st) != 3:
            self.bad("list loop over `%s` with a body of %d statements" % (node, len(st)))
        d, call, asg = st
        if d.get("kind") != "DeclStmt" or len(d["inner"]) != 1:
            self.bad("list loop: first statement is not `tmp = node->next`")
        tmp = d["inner"][0]["name"]
        nx = strip(d["inner"][0]["inner"][-1])
        if nx.get("kind") != "MemberExpr" or not nx.get("isArrow"):
            self.bad("list loop: first statement is not `tmp = node->next`")
        nb = strip(nx["inner"][0])
        if nb.get("kind") != "DeclRefExpr" or nb["referencedDecl"]["name"] != node:
            self.bad("list loop: `tmp` is not taken from the node")
        chain = nx["name"]
        ce = strip(call)
        if ce.get("kind") != "CallExpr" or len(ce["inner"]) != 2:
            self.bad("list loop: second statement is not `F(node)`")
        a = strip(ce["inner"][1])
        if a.get("kind") != "DeclRefExpr" or a["referencedDecl"]["name"] != node:
            self.bad("list loop: the call does not take the node")
        ae = strip(asg)
        if not (ae.get("kind") == "BinaryOperator" and ae.get("opcode") == "=" and
                strip(ae["inner"][0]).get("referencedDecl", {}).get("name") == node and
                strip(ae["inner"][1]).get("referencedDecl", {}).get("name") == tmp):
            self.bad("list loop: third statement is not `node = tmp`")
        fn = callee_name(ce)
        self.emit(Rel(start.text, fn, True, " && ".join(ctx.conds), chain), ctx)
        return True

    def for_loop(self, s, ctx):
        init, _, cond, inc, body = s["inner"]
        iv = None
        i0 = strip(init) if init else {}
        if i0.get("kind") == "BinaryOperator" and i0.get("opcode") == "=" and strip(i0["inner"][1]).get("value") == "0":
            iv = strip(i0["inner"][0])["referencedDecl"]["name"]
        elif i0.get("kind") == "DeclStmt" and len(i0.get("inner", [])) == 1:
            iv = i0["inner"][0]["name"]
        if iv is None:
            self.bad("for loop whose index does not start at 0")
        c = strip(cond)
        if not (c.get("kind") == "BinaryOperator" and c.get("opcode") == "<" and
                strip(c["inner"][0]).get("referencedDecl", {}).get("name") == iv):
            self.bad("for loop condition", cond)
        n = strip(inc)
        if not (n.get("kind") == "UnaryOperator" and n.get("opcode") == "++"):
            self.bad("for loop increment", inc)
        old = self.env.get(iv)
        self.env[iv] = Index()
        self.block(body, ctx)
        self.env[iv] = old if old is not None else Scalar(iv)

    def switch(self, s, ctx):
        sel = self.ev(s["inner"][0])
        if not isinstance(sel, Path):
            self.bad("switch on", s["inner"][0])
        en = self.tab.enum_of(sel.tname)
        if en is None:
            self.bad("switch on `%s` which is not of an enum type (%s)" % (sel.text, sel.tname))
        if self.in_arm:
            self.bad("nested switch on `%s`" % sel.text)
        if ctx.guards or ctx.conds:
            self.bad("switch under a condition")
        if self.arms is not None:
            self.bad("a second switch on `%s`" % sel.text)
        body = s["inner"][1]
        if body.get("kind") != "CompoundStmt":
            self.bad("switch body")
        # flatten: sequence of ('label', name) / ('default',) / ('stmt', node)
        seq = []
        def unwrap(n):
            k = n.get("kind")
            if k == "CaseStmt":
                lab = strip_casts(n["inner"][0])
                if lab.get("kind") == "ConstantExpr":
                    lab = strip_casts(lab["inner"][0])
                if lab.get("kind") != "DeclRefExpr":
                    self.bad("case label that is not an enumerator", n["inner"][0])
                seq.append(("label", lab["referencedDecl"]["name"]))
                unwrap(n["inner"][-1])
            elif k == "DefaultStmt":
                seq.append(("default",))
                unwrap(n["inner"][-1])
            else:
                seq.append(("stmt", n))
        for n in body.get("inner", []):
            unwrap(n)
        labels = [x[1] for x in seq if x[0] == "label"]
        consts = self.tab.enums[en]
        for l in labels:
            if l not in consts:
                self.bad("case %s is not an enumerator of %s" % (l, en))
        has_default = any(x[0] == "default" for x in seq)
        self.tag_path, self.tag_enum = sel.text, en
        self.arms = {}
        for tag in consts:
            if tag in labels:
                start = seq.index(("label", tag))
            elif has_default:
                start = seq.index(("default",))
            else:
                self.arms[tag] = []; continue
            self.cur = []
            self.in_arm = True
            for x in seq[start:]:
                if x[0] != "stmt":
                    continue
                if x[1].get("kind") == "BreakStmt":
                    break
                self.block(x[1], ctx)
            self.in_arm = False
            self.arms[tag] = self.cur
            self.cur = self.common

    def call(self, e, ctx):
        fn = callee_name(e)
        if fn is None:
            self.bad("indirect call", e)
        args = [self.ev(a) for a in e["inner"][1:]]
        paths = [a for a in args if isinstance(a, Path)]
        if not paths:
            if fn in ("printf", "fprintf", "assert", "__assert_fail"):
                return
            self.bad("call without a member of the parameter", e)
        a0 = args[0]
        if not isinstance(a0, Path):
            self.bad("call whose first argument is not a member of the parameter", e)
        if a0.text == "":
            if fn == "free":
                if ctx.conds or self.in_arm:
                    self.bad("free of the parameter under a condition")
                self.frees_self = True
                return
            # helper taking the same node: inline it
            if fn in self.stack or fn == self.fname:
                self.bad("recursive helper %s" % fn)
            if fn not in self.tab.funcs:
                self.bad("the node itself is passed to `%s`, whose body is not among the *_delete* functions" % fn)
            sub = self.tab.funcs[fn]["decl"]
            ps = [c for c in sub["inner"] if c.get("kind") == "ParmVarDecl"]
            body = [c for c in sub["inner"] if c.get("kind") == "CompoundStmt"][0]
            saved = self.env
            self.env = {ps[0]["name"]: Path("", a0.tname, a0.stars)}
            for p, a in zip(ps[1:], args[1:]):
                self.env[p["name"]] = a if a is not None else Scalar(p["name"])
            self.stack.append(fn)
            self.block(body, ctx)
            self.stack.pop()
            self.env = saved
            return
        self.emit(Rel(a0.text, fn, a0.text in ctx.guards, " && ".join(ctx.conds)), ctx)

    def emit(self, rel, ctx):
        self.cur.append(rel)

# ------------------------------------------------------------------ constructors

class CtorWalker(Walker):
    def __init__(self, tab, fname, structs):
        super().__init__(tab, fname)
        self.structs = structs            # struct name -> dict(tag_path, ...)
        self.inits = []                   # (path, kind, arg, conditional)
        self.tag = None                   # ("const", NAME) | ("param", name) | None
        self.var = None
        self.base = None                  # constructor this one starts from
        self.alias = None                 # `return C(args)`: the constructor it wraps
        self.wild = []                    # pointer stores through a member of the new node
        self.locals_init = {}
        self.zeroed = False

    def run(self):
        fn = self.tab.funcs[self.fname]["decl"]
        rt = fn["type"]["qualType"].split("(")[0].strip()
        base, stars = norm_type(rt)
        if stars != 1:
            return None
        self.struct = base if base in self.structs else self.tab.resolve(base)
        if self.struct not in self.structs:
            return None
        self.params = [c["name"] for c in fn["inner"] if c.get("kind") == "ParmVarDecl"]
        self.ptypes = {c["name"]: qual(c) for c in fn["inner"] if c.get("kind") == "ParmVarDecl"}
        body = [c for c in fn["inner"] if c.get("kind") == "CompoundStmt"][0]
        items = body.get("inner", [])
        self.returned = None
        self.kind = "ctor"
        self.block(body, False)
        if self.var is None:
            # no node of its own: it only combines other constructors (`return X_new(...)`)
            self.kind = "builder"
        elif self.returned != self.var:
            self.bad("allocates `%s` but returns something else" % self.var)
        return self

    def fresh_source(self, e):
        """is `e` a fresh node of the struct: (kind, fn, args) """
        e0 = strip_casts(e)
        if e0.get("kind") == "CallExpr":
            fn = callee_name(e0)
            return fn, e0
        return None, None

    def block(self, s, conditional):
        k = s.get("kind")
        if k == "CompoundStmt":
            for c in s.get("inner", []):
                self.block(c, conditional)
            return
        if k == "NullStmt":
            return
        if k == "DeclStmt":
            for v in s.get("inner", []):
                if v.get("kind") != "VarDecl":
                    self.bad("declaration of a %s" % v.get("kind"))
                base, stars = norm_type(qual(v))
                init = [c for c in v.get("inner", []) if c.get("kind") not in ("FullComment",)]
                if stars == 1 and (base == self.struct or self.tab.resolve(base) == self.struct) and self.var is None and init:
                    fn, call = self.fresh_source(init[-1])
                    if fn in ALLOCATORS:
                        self.var = v["name"]
                        self.env[self.var] = Path("", self.struct, 1)
                        self.zeroed = fn == "calloc"
                        if conditional:
                            self.bad("the node is allocated under a condition")
                        continue
                    if fn and "_new" in fn:
                        self.var = v["name"]
                        self.env[self.var] = Path("", self.struct, 1)
                        self.base = (fn, [self.arg_source(a) for a in call["inner"][1:]])
                        if conditional:
                            self.bad("the node is allocated under a condition")
                        continue
                # any other local: scalar or helper value
                self.env[v["name"]] = Scalar(v["name"])
                if init:
                    self.locals_init[v["name"]] = init[-1]
            return
        if k == "ReturnStmt":
            if not s.get("inner"):
                self.bad("return without a value")
            r = strip_casts(s["inner"][0])
            if r.get("kind") == "DeclRefExpr":
                self.returned = r["referencedDecl"]["name"]
            elif r.get("kind") == "CallExpr":
                self.returned = "<call %s>" % callee_name(r)
                self.alias = (callee_name(r), [self.arg_source(a) for a in r["inner"][1:]])
            elif is_null_deep(s["inner"][0]):
                self.returned = self.returned or "<NULL>"
            else:
                self.bad("return of", s["inner"][0])
            return
        if k == "IfStmt":
            inner = s["inner"]
            self.block(inner[1], True)
            if len(inner) > 2:
                self.block(inner[2], True)
            return
        if k == "ForStmt":
            init, _, cond, inc, body = s["inner"]
            i0 = strip(init) if init else {}
            iv = None
            if i0.get("kind") == "BinaryOperator" and i0.get("opcode") == "=":
                iv = strip(i0["inner"][0]).get("referencedDecl", {}).get("name")
            elif i0.get("kind") == "DeclStmt":
                iv = i0["inner"][0]["name"]
            if iv is None:
                self.bad("for loop")
            old = self.env.get(iv)
            self.env[iv] = Index()
            self.block(body, True)
            self.env[iv] = old if old is not None else Scalar(iv)
            return
        if k == "SwitchStmt":
            # a switch on a parameter choosing among stores: every arm is conditional
            def stmts(n):
                kk = n.get("kind")
                if kk in ("CaseStmt", "DefaultStmt"):
                    stmts(n["inner"][-1])
                elif kk == "BreakStmt":
                    pass
                elif kk == "CompoundStmt":
                    for c in n.get("inner", []):
                        stmts(c)
                else:
                    self.block(n, True)
            stmts(s["inner"][1])
            return
        if is_assert(s):
            return
        e = strip(s)
        ek = e.get("kind")
        if ek == "BinaryOperator" and e.get("opcode") == "=":
            self.assign(e, conditional); return
        if ek == "CallExpr":
            fn = callee_name(e)
            args = [self.ev(a) for a in e["inner"][1:]]
            if fn == "memset" and isinstance(args[0], Path) and args[0].text == "":
                self.zeroed = True; return
            for i, a in enumerate(args):
                if isinstance(a, Path) and a.text == "":
                    # the new node is handed to a helper: its stores through that parameter count as conditional stores
                    self.helper(fn, i, 0)
            return
        if ek in ("UnaryOperator", "CompoundAssignOperator"):
            return
        self.bad("statement kind %s" % k)

    def helper(self, fn, argi, depth):
        sm = self.tab.summ.get(fn)
        if sm is None or depth > 6:
            self.bad("the new node is passed to `%s`, whose body is not known" % fn)
        if argi >= len(sm["params"]):
            self.bad("the new node is passed to `%s` as a variadic argument" % fn)
        pname = sm["params"][argi][0]
        info = self.structs[self.struct]
        for (bk, bn, bt, path, stars, kind, arg) in sm["stores"]:
            if bk == "param" and bn == pname:
                if path == info["tag_path"]:
                    self.bad("the helper `%s` stores the tag of the new node" % fn)
                if stars >= 1:
                    k2 = kind if kind in ("null", "fresh", "borrow") else ("borrow" if kind in ("param", "local") else "other")
                    self.inits.append((path, k2, arg if kind != "param" else fn + ":" + arg, True))
        for (callee, i, p) in sm["forwards"]:
            if p == pname and callee not in ("free",):
                if callee in self.tab.summ:
                    self.helper(callee, i, depth + 1)
                elif callee in ("memset",):
                    self.zeroed = True
                elif callee is not None and callee.endswith("_delete"):
                    self.bad("the helper `%s` deletes the new node" % fn)
                # library functions (printf …) do not store into the node

    def arg_source(self, a):
        a0 = strip_casts(a)
        if is_null_deep(a):
            return ("null", "")
        if a0.get("kind") == "DeclRefExpr":
            d = a0["referencedDecl"]
            if d.get("kind") == "ParmVarDecl":
                return ("param", d["name"])
            if d.get("kind") == "EnumConstantDecl":
                return ("const", d["name"])
            if d.get("kind") == "VarDecl":
                li = self.locals_init.get(d["name"])
                if li is not None:
                    return self.arg_source(li)
                return ("other", d["name"])
        if a0.get("kind") == "CallExpr":
            return ("fresh", callee_name(a0) or "?")
        if a0.get("kind") in ("IntegerLiteral", "CharacterLiteral", "FloatingLiteral"):
            return ("scalar", str(a0.get("value")))
        if a0.get("kind") == "ConditionalOperator":
            x, y = self.arg_source(a0["inner"][1]), self.arg_source(a0["inner"][2])
            if x == y:
                return x
            if x[0] == "null":
                return y
            if y[0] == "null":
                return x
            return ("other", ctext(a0))
        if a0.get("kind") == "MemberExpr":
            return ("borrow", ctext(a0))
        if a0.get("kind") == "UnaryOperator" and a0.get("opcode") == "&":
            return ("borrow", ctext(a0))
        return ("other", ctext(a0))

    def assign(self, e, conditional):
        lhs, rhs = e["inner"]
        # chained `a = b = NULL`
        r0 = strip(rhs)
        if r0.get("kind") == "BinaryOperator" and r0.get("opcode") == "=":
            self.assign(r0, conditional)
            rhs = r0["inner"][1]
        p = self.ev(lhs)
        if not isinstance(p, Path):
            l0 = strip(lhs)
            if l0.get("kind") == "DeclRefExpr" and l0["referencedDecl"]["name"] == self.var and self.var is not None:
                self.bad("the node variable is assigned again")
            if l0.get("kind") == "DeclRefExpr":
                # assignment to a local: remember where the node comes from (`ret = NULL; ret = malloc(...)`)
                name = l0["referencedDecl"]["name"]
                base, stars = norm_type(qual(l0))
                if self.var is None and stars == 1 and (base == self.struct or self.tab.resolve(base) == self.struct):
                    fn, call = self.fresh_source(rhs)
                    if fn in ALLOCATORS or (fn and "_new" in fn):
                        if conditional:
                            self.bad("the node is allocated under a condition")
                        self.var = name
                        self.env[name] = Path("", self.struct, 1)
                        if fn in ALLOCATORS:
                            self.zeroed = fn == "calloc"
                        else:
                            self.base = (fn, [self.arg_source(a) for a in call["inner"][1:]])
                        return
                self.locals_init[name] = rhs
                return
            if l0.get("kind") in ("MemberExpr", "ArraySubscriptExpr", "UnaryOperator"):
                return                           # store into something else (a parameter's member): not this node
            self.bad("assignment to", lhs)
        if p.text == "":
            self.bad("assignment through the node pointer itself", e)
        src = self.arg_source(rhs)
        info = self.structs[self.struct]
        if "->" in p.text:
            head = p.text.split("->")[0]
            if p.stars >= 1:
                self.wild.append((p.text, src[0]))
            return
        if p.text == info["tag_path"]:
            if src[0] in ("const", "param"):
                if self.tag is not None and self.tag != src:
                    self.tag = ("multi", "")
                else:
                    self.tag = src
            elif src[0] == "scalar":
                self.tag = ("scalar", src[1])
            else:
                self.bad("tag stored from", rhs)
            return
        if p.stars >= 1:
            self.inits.append((p.text, src[0], src[1], conditional))

# ------------------------------------------------------------------ retagging sites

class RetagWalker(Walker):
    """walk of a function that stores a constant into the tag member of a node outside a constructor.
    For every such store (a SITE): the struct, the stored tag, the tags the path condition admits before (`case` labels of an
    enclosing switch on the same member, `x->type == T` tests of enclosing ifs; empty = unknown here), whether the node is
    fresh memory (a local that receives malloc/calloc), and — within the innermost block that contains the store — the
    members of that node handed to a function (directly or through a local copy `l = x->f; … F(l)`), the pointer members
    stored (with the member a moved value comes from), and whether the whole node is copied out (`*y = *x`)."""
    def __init__(self, tab, fname, structs):
        super().__init__(tab, fname)
        self.structs = structs
        self.sites = []           # dict(struct, base, tag, frm, scope)
        self.events = []          # (kind, base, data, [ids of the enclosing blocks])
        self.aliases = {}         # local name -> (base text, path)
        self.fresh_locals = set()

    def run(self):
        fn = self.tab.retag_fns[self.fname]["decl"]
        self.params = [c["name"] for c in fn["inner"] if c.get("kind") == "ParmVarDecl"]
        body = [c for c in fn["inner"] if c.get("kind") == "CompoundStmt"][0]
        self.collect_aliases(body)
        self.walk(body, [], [])
        return self

    def collect_aliases(self, n):
        k = n.get("kind")
        if k == "DeclStmt":
            for v in n.get("inner", []):
                if v.get("kind") == "VarDecl" and v.get("inner") and norm_type(qual(v))[1] >= 1:
                    self.note_local(v["name"], v["inner"][-1])
        if k == "BinaryOperator" and n.get("opcode") == "=":
            l0 = strip(n["inner"][0])
            if l0.get("kind") == "DeclRefExpr" and l0["referencedDecl"].get("kind") == "VarDecl" and norm_type(qual(l0))[1] >= 1:
                self.note_local(l0["referencedDecl"]["name"], n["inner"][1])
        for c in n.get("inner", []):
            self.collect_aliases(c)

    def note_local(self, name, init):
        r = strip_casts(init)
        # chained `a = b = malloc(..)`
        while r.get("kind") == "BinaryOperator" and r.get("opcode") == "=":
            r = strip_casts(r["inner"][1])
        if r.get("kind") == "CallExpr" and callee_name(r) in ALLOCATORS:
            self.fresh_locals.add(name); return
        b = self.base_of(init)
        if b:
            self.aliases[name] = (b[0], b[2])

    def base_of(self, e):
        """(base text, struct, member path) of `x->a.b` where x is any pointer-valued expression to a struct of the table"""
        e = strip_casts(e)
        names = []
        while e.get("kind") == "MemberExpr":
            if e.get("name", "") != "":
                names.append(e["name"])
            if e.get("isArrow"):
                b = strip(e["inner"][0])
                t, stars = norm_type(qual(b))
                st = t if t in self.structs else self.tab.resolve(t)
                if st in self.structs and stars == 1:
                    return ctext(b), st, ".".join(reversed(names))
                return None
            e = strip(e["inner"][0])
        return None

    def tag_tests(self, cond, out):
        c = strip(cond)
        if c.get("kind") == "BinaryOperator" and c.get("opcode") == "&&":
            self.tag_tests(c["inner"][0], out); self.tag_tests(c["inner"][1], out); return
        if c.get("kind") == "BinaryOperator" and c.get("opcode") == "==":
            b = self.base_of(c["inner"][0])
            r = strip_casts(c["inner"][1])
            if b and r.get("kind") == "DeclRefExpr" and r["referencedDecl"].get("kind") == "EnumConstantDecl":
                if self.structs[b[1]]["tag_path"] == b[2]:
                    out.append((b[0], [r["referencedDecl"]["name"]]))

    def walk(self, n, tests, blocks):
        k = n.get("kind")
        if k == "CompoundStmt":
            blocks = blocks + [n.get("id")]
        if k == "IfStmt":
            inner = n["inner"]
            t2 = list(tests)
            self.tag_tests(inner[0], t2)
            self.walk(inner[0], tests, blocks)
            self.walk(inner[1], t2, blocks)
            if len(inner) > 2:
                self.walk(inner[2], tests, blocks)
            return
        if k == "SwitchStmt":
            sel = self.base_of(n["inner"][0])
            body = n["inner"][1]
            if sel and self.structs[sel[1]]["tag_path"] == sel[2] and body.get("kind") == "CompoundStmt":
                def unwrap(c, labels):
                    kk = c.get("kind")
                    if kk == "CaseStmt":
                        lab = strip_casts(c["inner"][0])
                        if lab.get("kind") == "ConstantExpr":
                            lab = strip_casts(lab["inner"][0])
                        labels.append(lab.get("referencedDecl", {}).get("name", "?"))
                        return unwrap(c["inner"][-1], labels)
                    if kk == "DefaultStmt":
                        labels.append("*")
                        return unwrap(c["inner"][-1], labels)
                    return c
                cur, fell = [], True
                for c in body.get("inner", []):
                    if c.get("kind") in ("CaseStmt", "DefaultStmt"):
                        if not fell:
                            cur = []
                        st = unwrap(c, cur)
                    else:
                        st = c
                    fell = st.get("kind") not in ("BreakStmt", "ReturnStmt")
                    labs = [] if "*" in cur else list(cur)
                    self.walk(st, tests + [(sel[0], labs)], blocks + [body.get("id")])
                return
        if k == "BinaryOperator" and n.get("opcode") == "=":
            self.store(n, tests, blocks)
        if k == "CallExpr":
            self.call(n, blocks)
        for c in n.get("inner", []):
            self.walk(c, tests, blocks)

    def store(self, n, tests, blocks):
        lhs, rhs = n["inner"]
        l0 = strip(lhs)
        if l0.get("kind") == "UnaryOperator" and l0.get("opcode") == "*":
            r0 = strip(rhs)
            if r0.get("kind") == "UnaryOperator" and r0.get("opcode") == "*":
                self.events.append(("copy", ctext(strip(r0["inner"][0])), None, blocks))
            return
        b = self.base_of(lhs)
        if not b:
            return
        base, st, path = b
        r = strip_casts(rhs)
        if path == self.structs[st]["tag_path"]:
            if r.get("kind") == "DeclRefExpr" and r["referencedDecl"].get("kind") == "EnumConstantDecl":
                frm = None
                for tb, labs in tests:
                    if tb == base and labs:
                        frm = labs if frm is None else [x for x in frm if x in labs]
                self.sites.append(dict(struct=st, base=base, tag=r["referencedDecl"]["name"], frm=frm or [], scope=blocks[-1] if blocks else None))
            elif r.get("kind") in ("DeclRefExpr", "MemberExpr"):
                self.sites.append(dict(struct=st, base=base, tag="?" + ctext(r), frm=[], scope=None))
            return
        if norm_type(qual(l0))[1] >= 1:
            src, frm_path = "other", ""
            if is_null_deep(rhs):
                src = "null"
            elif r.get("kind") == "CallExpr":
                src = "fresh"
            elif r.get("kind") == "DeclRefExpr" and r["referencedDecl"].get("kind") == "ParmVarDecl":
                src = "param"
            elif r.get("kind") == "DeclRefExpr" and r["referencedDecl"]["name"] in self.aliases and self.aliases[r["referencedDecl"]["name"]][0] == base:
                src, frm_path = "move", self.aliases[r["referencedDecl"]["name"]][1]
            elif r.get("kind") == "DeclRefExpr" and r["referencedDecl"]["name"] in self.fresh_locals:
                src = "fresh"
            elif r.get("kind") == "MemberExpr":
                rb = self.base_of(rhs)
                if rb and rb[0] == base:
                    src, frm_path = "move", rb[2]
                else:
                    src = "borrow"
            self.events.append(("store", base, (path, src, frm_path), blocks))

    def call(self, n, blocks):
        fn = callee_name(n)
        if fn is None:
            return
        for a in n["inner"][1:]:
            b = self.base_of(a)
            a0 = strip_casts(a)
            if b and b[2] != "" and norm_type(qual(strip(a)))[1] >= 1:
                self.events.append(("call", b[0], (b[2], fn), blocks))
            elif a0.get("kind") == "DeclRefExpr" and a0["referencedDecl"]["name"] in self.aliases:
                base, path = self.aliases[a0["referencedDecl"]["name"]]
                self.events.append(("call", base, (path, fn), blocks))

    def site_rows(self):
        out = []
        for s in self.sites:
            ev = [e for e in self.events if e[1] == s["base"] and s["scope"] is not None and s["scope"] in e[3]]
            b0 = s["base"]
            out.append(dict(struct=s["struct"], base=b0, tag=s["tag"], frm=s["frm"],
                            fresh=b0 in self.fresh_locals,
                            base_param=self.params.index(b0) if b0 in self.params else -1,
                            released=sorted(set(e[2] for e in ev if e[0] == "call")),
                            stored=sorted(set(e[2] for e in ev if e[0] == "store")),
                            copied=any(e[0] == "copy" for e in ev)))
        return out

# ------------------------------------------------------------------ local allocations (escape analysis)
#
# For every function of the tree: a LOCAL variable that receives a fresh allocation (malloc/calloc/strdup/realloc/`*_new*`) must, on
# every path to the end of the function (structured walk: if/else, switch with fall-through, loops taken zero times or once, early
# returns; `if (p == NULL)` refines), be CONSUMED: passed to a function other than a known read-only libc function, stored into a
# member / element / through a pointer / another variable, or returned.  `lost` rows name the first way a path loses it
# (`return`, `end`, `loop` = allocated in a loop body and not consumed there, `overwritten`).  May-analysis: one losing path suffices.

ESC_ALLOC = ("malloc", "calloc", "strdup", "strndup", "realloc")
NONCONSUMING = ("memset", "memcpy", "memmove", "strcpy", "strncpy", "strcat", "strncat", "sprintf", "snprintf", "vsnprintf", "printf", "fprintf",
                "strlen", "strcmp", "strncmp", "fgets", "fread", "fwrite", "sscanf", "atoi", "atof", "puts", "fputs", "__assert_fail")
def is_alloc_call(e):
    e0 = strip_casts(e)
    if e0.get("kind") == "CallExpr":
        fn = callee_name(e0)
        if fn in ESC_ALLOC or (fn and ("_new" in fn)):
            return fn
    return None

def uses(e, names, acc):
    """vars of `names` that occur in e as: call argument / stored somewhere / returned (consumed)"""
    k = e.get("kind")
    if k == "DeclRefExpr" and e.get("referencedDecl", {}).get("name") in names:
        acc.add(e["referencedDecl"]["name"])
    for c in e.get("inner", []):
        uses(c, names, acc)

class Esc:
    def __init__(self, fn):
        self.fn = fn; self.rows = []; self.tracked = []; self.locals = set()
    def run(self, decl):
        body = [c for c in decl["inner"] if c.get("kind") == "CompoundStmt"][0]
        st = self.stmt(body, frozenset())
        if st is not None:
            for v in st: self.rows.append((self.fn, v[0], v[1], "end"))
    def consume_expr(self, e, st):
        """an expression statement / condition: calls taking the var, stores of the var into an lvalue other than a local"""
        live = {v[0] for v in st}
        if not live: return st
        gone = set()
        def go(n, in_call):
            k = n.get("kind")
            if k == "CallExpr":
                cn = callee_name(n)
                for a in n["inner"][1:]:
                    if cn in NONCONSUMING:
                        go(a, False)
                    else:
                        acc = set(); uses(a, live, acc); gone.update(acc)
                go(n["inner"][0], False); return
            if k == "BinaryOperator" and n.get("opcode") == "=":
                lhs, rhs = n["inner"]
                l0 = strip(lhs)
                acc = set(); uses(rhs, live, acc)
                r0 = strip_casts(rhs)
                direct = r0.get("kind") == "DeclRefExpr" and r0["referencedDecl"].get("name") in live
                if direct and l0.get("kind") != "DeclRefExpr":
                    gone.add(r0["referencedDecl"]["name"])      # stored into a member / element / *out
                elif direct and l0.get("kind") == "DeclRefExpr":
                    gone.add(r0["referencedDecl"]["name"])      # copied to another local / global: give up tracking (conservative: consumed)
                go(rhs, False); return
            for c in n.get("inner", []): go(c, in_call)
        go(e, False)
        return frozenset(v for v in st if v[0] not in gone)
    def null_test(self, cond):
        """(var, sense): cond true implies var == NULL (sense 'null') or var != NULL ('nonnull')"""
        c = strip(cond)
        if c.get("kind") == "BinaryOperator" and c.get("opcode") in ("==", "!="):
            a, b = c["inner"]
            if is_null_deep(b):
                a0 = strip(a)
                if a0.get("kind") == "DeclRefExpr":
                    return a0["referencedDecl"]["name"], ("null" if c["opcode"] == "==" else "nonnull")
        if c.get("kind") == "UnaryOperator" and c.get("opcode") == "!":
            a0 = strip(c["inner"][0])
            if a0.get("kind") == "DeclRefExpr": return a0["referencedDecl"]["name"], "null"
        if c.get("kind") == "DeclRefExpr": return c["referencedDecl"]["name"], "nonnull"
        return None, None
    def stmt(self, s, st):
        """returns the state after s, or None when control does not continue (return)"""
        if st is None: return None
        k = s.get("kind")
        if k == "CompoundStmt":
            for c in s.get("inner", []):
                st = self.stmt(c, st)
                if st is None: return None
            return st
        if k == "DeclStmt":
            for v in s.get("inner", []):
                if v.get("kind") == "VarDecl" and v.get("inner"):
                    init = v["inner"][-1]
                    st = self.consume_expr(init, st)
                    fn = is_alloc_call(init)
                    if fn and norm_type(qual(v))[1] >= 1 and v.get("storageClass") != "static":
                        st = frozenset(set(st) | {(v["name"], fn)})
                        self.tracked.append((v["name"], fn))
            return st
        if k == "ReturnStmt":
            if s.get("inner"): st = self.consume_expr(s["inner"][0], st)
            if s.get("inner"):
                acc = set(); uses(s["inner"][0], {v[0] for v in st}, acc)
                st = frozenset(v for v in st if v[0] not in acc)
            for v in st: self.rows.append((self.fn, v[0], v[1], "return"))
            return None
        if k == "IfStmt":
            inner = s["inner"]; cond = inner[0]
            st = self.consume_expr(cond, st)
            var, sense = self.null_test(cond)
            st_then = st; st_else = st
            if var is not None:
                if sense == "null": st_then = frozenset(v for v in st if v[0] != var)
                else: st_else = frozenset(v for v in st if v[0] != var)
            a = self.stmt(inner[1], st_then)
            b = self.stmt(inner[2], st_else) if len(inner) > 2 else st_else
            if a is None: return b
            if b is None: return a
            return a | b
        if k in ("WhileStmt", "DoStmt", "ForStmt"):
            # loop body once (allocations made in the body must be consumed in the body), plus zero times
            parts = [c for c in s.get("inner", []) if c]
            body = parts[-1] if k != "DoStmt" else parts[0]
            for c in parts:
                if c is not body: st = self.consume_expr(c, st)
            a = self.stmt(body, st)
            if a is None: return st
            new = a - st
            for v in new: self.rows.append((self.fn, v[0], v[1], "loop"))
            return frozenset(a & st) | frozenset(x for x in st)
        if k == "SwitchStmt":
            st = self.consume_expr(s["inner"][0], st)
            body = s["inner"][1]
            outs = []
            cur = None
            def flat(n, out):
                if n.get("kind") in ("CaseStmt", "DefaultStmt"):
                    out.append(("label",)); flat(n["inner"][-1], out)
                else: out.append(("stmt", n))
            seq = []
            for c in body.get("inner", []): flat(c, seq)
            cur = None; has_default = any(c.get("kind") == "DefaultStmt" for c in body.get("inner", []))
            for x in seq:
                if x[0] == "label":
                    cur = st if cur is None else (cur | st)
                else:
                    if x[1].get("kind") == "BreakStmt":
                        if cur is not None: outs.append(cur)
                        cur = None
                    elif cur is not None:
                        cur = self.stmt(x[1], cur)
            if cur is not None: outs.append(cur)
            outs.append(st)
            r = frozenset()
            for o in outs: r = r | o
            return r
        if k in ("BreakStmt", "ContinueStmt", "NullStmt", "LabelStmt", "GotoStmt"):
            return st
        # expression statement
        e = strip(s)
        if e.get("kind") == "BinaryOperator" and e.get("opcode") == "=":
            lhs, rhs = e["inner"]
            l0 = strip(lhs)
            fn = is_alloc_call(rhs)
            st = self.consume_expr(e, st)
            if fn and l0.get("kind") == "DeclRefExpr" and l0["referencedDecl"].get("kind") == "VarDecl" and "id" in l0["referencedDecl"]:
                name = l0["referencedDecl"]["name"]
                if name in self.locals:
                    for v in st:
                        if v[0] == name: self.rows.append((self.fn, name, v[1], "overwritten"))
                    st = frozenset({v for v in st if v[0] != name} | {(name, fn)})
                    self.tracked.append((name, fn))
            return st
        return self.consume_expr(s, st)


# ------------------------------------------------------------------ offsets

def offsets(src, wanted):
    """{(struct, path): byte offset} through clang: `offsetof` in enum initialisers, value read from the AST"""
    heads = sorted(glob.glob(os.path.join(src, "include", "*.h")) + glob.glob(os.path.join(src, "front", "*.h")) + glob.glob(os.path.join(src, "back", "*.h")))
    lines = ["#include <stddef.h>"] + ['#include "%s"' % os.path.relpath(h, src) for h in heads if os.path.basename(h) not in ("parser.h",)]
    lines.append("enum owntab_probe {")
    for i, (s, p) in enumerate(wanted):
        lines.append("  OWNTAB_%d = offsetof(%s, %s)," % (i, s, p))
    lines.append("  OWNTAB_END };")
    probe = os.path.join(src, "owntab_probe_%d.c" % os.getpid())
    open(probe, "w").write("\n".join(lines) + "\n")
    try:
        out = clang(src, ["-Xclang", "-ast-dump-filter=owntab_probe", os.path.basename(probe)]).decode()
    finally:
        os.remove(probe)
    dec, i, res = json.JSONDecoder(), 0, {}
    def value(n):
        if "value" in n and n.get("kind") in ("ConstantExpr", "IntegerLiteral"):
            return n["value"]
        for c in n.get("inner", []):
            v = value(c)
            if v is not None:
                return v
        return None
    while i < len(out):
        while i < len(out) and out[i].isspace():
            i += 1
        if i >= len(out) or out[i] != "{":
            nl = out.find("\n{", i)
            if nl < 0:
                break
            i = nl + 1
            continue
        o, i = dec.raw_decode(out, i)
        for c in o.get("inner", []):
            m = re.match(r"OWNTAB_(\d+)$", c.get("name", ""))
            if m:
                v = value(c)
                if v is None:
                    raise Unrecognised("no offset for %s.%s" % wanted[int(m.group(1))])
                res[wanted[int(m.group(1))]] = int(v)
    missing = [w for w in wanted if w not in res]
    if missing:
        raise Unrecognised("clang gave no offset for %s" % (missing[:5],))
    return res

# ------------------------------------------------------------------ assembling

def first_param(decl):
    ps = [c for c in decl["inner"] if c.get("kind") == "ParmVarDecl"]
    return norm_type(qual(ps[0])) if ps else ("", 0)

PRIMITIVE = ("char", "void", "int", "unsigned int", "long", "long long", "float", "double", "unsigned char")

def extract(src, jobs=8):
    files = sorted(glob.glob(os.path.join(src, "front", "*.c")) + glob.glob(os.path.join(src, "back", "*.c")))
    if not files:
        raise Unrecognised("no sources under %s" % src)
    rels = [os.path.relpath(f, src) for f in files]
    with ProcessPoolExecutor(max_workers=jobs) as ex:
        parts = list(ex.map(tu_worker, [(src, r) for r in rels]))
    tab = Tab(src, parts)
    problems = list(tab.problems)

    # ---- delete functions
    walked, foreign = {}, []
    for name in sorted(tab.funcs):
        if "_delete" not in name:
            continue
        base, stars = first_param(tab.funcs[name]["decl"])
        if stars == 1 and tab.record_of(base) is None and base not in PRIMITIVE:
            foreign.append(name)             # releases a type defined outside the project (libffi's ffi_type): members unknown
            continue
        try:
            walked[name] = DelWalker(tab, name).run()
        except Unrecognised as e:
            problems.append(str(e))
    principal, helpers = {}, []
    for name, w in sorted(walked.items()):
        rec = tab.record_of(w.struct)
        if w.frees_self:
            st = w.struct if w.struct in tab.records else tab.resolve(w.struct)
            key = st if (rec is not None and w.param_stars == 1) else w.struct + (" *" * (w.param_stars - 1))
            if key in principal:
                problems.append("two functions free a `%s *`: %s and %s" % (key, principal[key], name))
            principal[key] = name
        else:
            helpers.append(name)
    structs = {}
    for st, name in sorted(principal.items()):
        w = walked[name]
        rec = tab.record_of(w.struct)
        opaque = rec is None or w.param_stars > 1
        fields, tags = [], []
        if not opaque:
            try:
                fields, tags = tab.pointer_paths(st)
            except Unrecognised as e:
                problems.append(str(e)); continue
        structs[st] = dict(name=st, deleter=name, file=tab.funcs[name]["file"], fields=fields, tag_path=w.tag_path, tag_enum=w.tag_enum,
                           tags=tab.enums.get(w.tag_enum, []) if w.tag_enum else [], is_array=w.is_array, opaque=opaque, enum_members=tags)
    # helpers must have been inlined somewhere (otherwise a delete function nobody accounts for)
    called_helpers = set()
    for name in walked:
        for c in called_functions(tab.funcs[name]["decl"], []):
            if c in helpers:
                called_helpers.add(c)
    for h in helpers:
        if h not in called_helpers:
            problems.append("%s does not free its parameter and no delete function calls it" % h)

    # ---- offsets
    wanted = []
    for st, s in structs.items():
        if s["opaque"]:
            continue
        for p, pointee, in_union in s["fields"]:
            wanted.append((st, p))
        if s["tag_path"]:
            wanted.append((st, s["tag_path"]))
    try:
        offs = offsets(src, wanted) if wanted else {}
    except Unrecognised as e:
        problems.append(str(e)); offs = {}

    def split_path(st, path):
        """(member path of the struct, rest) : `mem[].object_value` -> (`mem`, `[].object_value`)"""
        m = re.search(r"->|\[\]", path)
        head, rest = (path[:m.start()], path[m.start():]) if m else (path, "")
        return head, rest
    def off_of(st, path):
        head, rest = split_path(st, path)
        return offs.get((st, head))

    # ---- constructors
    ctors, aliases, builders = {}, {}, []
    for name in sorted(tab.funcs):
        if "_new" not in name:
            continue
        try:
            c = CtorWalker(tab, name, structs).run()
        except Unrecognised as e:
            problems.append(str(e)); continue
        if c is None:
            continue
        if c.kind == "builder":
            builders.append(name)
            if c.alias is not None:
                aliases[name] = c
        else:
            ctors[name] = c
    def subst(amap, kind, arg):
        if kind == "param":
            return amap.get(arg, ("other", arg))
        return (kind, arg)
    def resolve_ctor(name, depth=0):
        """constructors that start from another constructor (or wrap one) inherit its stores and tag"""
        c = ctors.get(name) or aliases.get(name)
        if c is None:
            raise Unrecognised("`%s` is not a recognised constructor" % name)
        if getattr(c, "resolved", False):
            return c
        if depth > 8:
            raise Unrecognised("%s: constructor chain too deep" % name)
        link = c.base if c.kind == "ctor" else c.alias
        if link is not None:
            bname, bargs = link
            if bname not in ctors and bname not in aliases:
                raise Unrecognised("%s starts from `%s`, which is not a recognised constructor of %s" % (name, bname, c.struct))
            b = resolve_ctor(bname, depth + 1)
            if b.struct != c.struct:
                raise Unrecognised("%s starts from `%s`, a constructor of %s" % (name, bname, b.struct))
            amap = dict(zip(b.params, bargs))
            inh = [(p,) + subst(amap, kind, arg) + (cond,) for (p, kind, arg, cond) in b.inits]
            own = {p for (p, _, _, cond) in c.inits if not cond}
            c.inits = [i for i in inh if i[0] not in own] + c.inits
            if c.tag is None and b.tag is not None:
                c.tag = subst(amap, b.tag[0], b.tag[1]) if b.tag[0] == "param" else b.tag
            c.zeroed = c.zeroed or b.zeroed
            c.wild = b.wild + c.wild
        c.resolved = True
        return c
    for name in sorted(ctors):
        try:
            resolve_ctor(name)
        except Unrecognised as e:
            problems.append(str(e))
    # call sites of a constructor, seen through the wrappers (`return C(args)`)
    def call_sites(fn):
        out = []
        for (file, caller, callee, consts) in tab.calls:
            if callee == fn:
                out.append((file, caller, consts))
        return out
    ctor_rows, raw_ctors, wild = [], [], []
    for name in sorted(ctors):
        c = ctors[name]
        if not getattr(c, "resolved", False):
            continue
        info = structs[c.struct]
        tags, tag_param = [], ""
        if info["tag_path"]:
            if c.tag is None:
                raw_ctors.append(name)          # leaves the tag to its caller (object_new)
            elif c.tag[0] == "const":
                tags = [c.tag[1]]
            elif c.tag[0] == "param":
                tag_param = c.tag[1]
                seen, done, todo = set(), set(), [(name, c.params.index(c.tag[1]))]
                while todo:
                    fn, ix = todo.pop()
                    if (fn, ix) in done:
                        continue
                    done.add((fn, ix))
                    for (file, caller, consts) in call_sites(fn):
                        hit = [x for x in consts if x[0] == ix]
                        if not hit:
                            problems.append("%s: call of %s in %s without argument %d" % (name, fn, caller, ix)); continue
                        _, kind, val = hit[0]
                        if kind == "const":
                            seen.add(val)
                        elif kind == "param" and caller in tab.summ:
                            ps = [q[0] for q in tab.summ[caller]["params"]]
                            todo.append((caller, ps.index(val)))
                        else:
                            problems.append("%s: the tag passed by %s (%s) is not a constant" % (name, caller, file))
                en = info["tag_enum"]
                bad = sorted(t for t in seen if t not in tab.enums[en])
                if bad:
                    problems.append("%s: tags %s passed at call sites are not enumerators of %s" % (name, bad, en))
                tags = [t for t in tab.enums[en] if t in seen]
            else:
                problems.append("%s: tag stored as %s" % (name, c.tag,)); continue
        inits = []
        for (p, kind, arg, cond) in c.inits:
            o = off_of(c.struct, p)
            if o is None:
                problems.append("%s: store to `%s`, which is not a pointer member of %s" % (name, p, c.struct)); continue
            inits.append(dict(path=p, off=o, kind=kind, arg=arg, cond=cond))
        for (p, kind) in c.wild:
            head = p.split("->")[0]
            if not any(i["path"] == head and i["kind"] in ("param", "fresh") and not i["cond"] for i in inits):
                wild.append((name, p))
        ctor_rows.append(dict(fn=name, struct=c.struct, file=tab.funcs[name]["file"], tags=tags, tag_param=tag_param,
                              inits=inits, zeroed=c.zeroed, base=c.base[0] if c.base else ""))

    # ---- delete rows
    del_rows = []
    for st, s in sorted(structs.items()):
        w = walked[s["deleter"]]
        def rows(rs):
            out = []
            for r in rs:
                path = r.path
                if s["is_array"] or s["opaque"]:
                    if not path.startswith("[]"):
                        problems.append("%s: release of `%s` outside the elements of the array parameter" % (s["deleter"], path)); continue
                    path = path[2:].lstrip(".")
                head, rest = split_path(st, path)
                o = None if s["opaque"] else offs.get((st, head))
                if o is None and not s["opaque"]:
                    problems.append("%s: release of `%s`, which is not a pointer member of %s" % (s["deleter"], r.path, st)); continue
                out.append(dict(path=path, head=head, off=o or 0, fn=r.fn, guarded=r.guarded, cond=r.cond, chain=r.chain, deep=rest != ""))
            return out
        arms = []
        if w.arms is not None:
            groups = []
            for tag in s["tags"]:
                rs = rows(w.arms[tag])
                key = json.dumps(rs, sort_keys=True)
                for g in groups:
                    if g[0] == key:
                        g[1].append(tag); break
                else:
                    groups.append((key, [tag], rs))
            arms = [dict(labels=g[1], rels=g[2]) for g in groups]
        del_rows.append(dict(fn=s["deleter"], struct=st, file=s["file"], is_array=s["is_array"], opaque=s["opaque"], tag_path=s["tag_path"],
                             tag_enum=s["tag_enum"], tags=s["tags"], common=rows(w.common), arms=arms, frees_self=True))

    # ---- field rows
    field_rows = []
    for st, s in sorted(structs.items()):
        for p, pointee, in_union in s["fields"]:
            if (st, p) in offs:
                field_rows.append(dict(struct=st, path=p, off=offs[(st, p)], pointee=pointee, in_union=in_union))

    # ---- retag rows
    retag_rows = []
    tagged = {k: v for k, v in structs.items() if not v["opaque"] and v["tag_path"]}
    def labelled_from(fn, argi, st):
        """tags under which `fn` is called with the node as argument `argi`: every call site must sit in a `case` of a switch
        on the node's tag (else unknown = [])"""
        total = sum(sm["ncalls"].get(fn, 0) for sm in tab.summ.values())
        labs, n = set(), 0
        for sm in tab.summ.values():
            for (callee, i, member, labels) in sm["labelled"]:
                if callee == fn and i == argi and member == structs[st]["tag_path"] and labels and "*" not in labels:
                    labs.update(labels); n += 1
        return sorted(labs) if total > 0 and n == total else []
    for name in sorted(tab.retag_fns):
        if name in walked or name in ctors:
            continue
        try:
            r = RetagWalker(tab, name, tagged).run()
        except Unrecognised as e:
            problems.append(str(e)); continue
        for site in r.site_rows():
            st = site["struct"]
            if site["tag"].startswith("?"):
                problems.append("%s: the tag of a %s is stored from `%s`, not from a constant" % (name, st, site["tag"][1:])); continue
            frm = site["frm"]
            if not frm and site["base_param"] >= 0:
                frm = labelled_from(name, site["base_param"], st)
            retag_rows.append(dict(fn=name, file=tab.retag_fns[name]["file"], struct=st, tag=site["tag"], frm=[t for t in structs[st]["tags"] if t in frm],
                                   fresh=site["fresh"],
                                   released=[dict(path=p, off=off_of(st, p), fn=f) for (p, f) in site["released"] if off_of(st, p) is not None],
                                   stored=[dict(path=p, off=off_of(st, p), kind=k, frm_off=(off_of(st, fp) if fp and off_of(st, fp) is not None else 0), frm_path=fp)
                                           for (p, k, fp) in site["stored"] if off_of(st, p) is not None],
                                   copied=site["copied"]))
    uniq, seen = [], {}
    for r in retag_rows:
        key = json.dumps(r, sort_keys=True)
        if key in seen:
            seen[key]["count"] += 1
        else:
            seen[key] = r
            uniq.append(r)
            r["count"] = 1

    # ---- stores outside constructors into pointer members of the structs of the table
    late = {}
    ctor_names = set(ctors) | set(aliases)
    for fn, sm in sorted(tab.summ.items()):
        if fn in ctor_names or fn in walked:
            continue
        for (bk, bn, bt, path, stars, kind, arg) in sm["stores"]:
            st = bt if bt in structs else tab.resolve(bt)
            if st not in structs or structs[st]["opaque"] or stars < 1:
                continue
            if (st, path) not in offs:
                continue
            late.setdefault((st, path, "null" if kind == "null" else ("fresh" if kind == "fresh" else ("borrow" if kind in ("borrow", "param", "local") else "other"))), set()).add(fn)
    late_rows = [dict(struct=st, path=p, off=offs[(st, p)], kind=k, fns=sorted(fns)) for (st, p, k), fns in sorted(late.items())]

    return dict(structs=[dict(name=st, deleter=s["deleter"], file=s["file"], tag_path=s["tag_path"], tag_enum=s["tag_enum"], tags=s["tags"],
                              is_array=s["is_array"], opaque=s["opaque"]) for st, s in sorted(structs.items())],
                fields=field_rows, dels=del_rows, ctors=ctor_rows, retags=uniq, late=late_rows, builders=sorted(builders), helpers=sorted(helpers),
                foreign=sorted(foreign), raw_ctors=sorted(raw_ctors), wild=sorted(wild), problems=problems, files=len(files),
                locals=sorted(tab.local_rows, key=lambda r: (r["file"], r["fn"], r["var"], r["alloc"])))

# ------------------------------------------------------------------ Lean output

def ls(s):
    return '"' + str(s).replace("\\", "\\\\").replace('"', '\\"').replace("\n", " ") + '"'

def lb(b):
    return "true" if b else "false"

def ll(xs, f=str):
    return "[" + ", ".join(f(x) for x in xs) + "]"

def ident(s):
    return re.sub(r"[^A-Za-z0-9_]", "_", s.replace(" *", "_ptr").replace("*", "_ptr")).strip("_")

PRIM_POINTEES = ("char", "void")

def render(t):
    """Lean text.  Everything the theorems compare is a natural number (the kernel compares string literals at ~10 ms a pair):
    types, tags, functions and fields are numbered here, the names are kept as display strings and as Lean constants
    `S.<type>`, `T.<TAG>`, `Fn.<function>`, `F.<struct>__<member_path>` for the hand-written classification."""
    problems = list(t["problems"])
    # ---- numbering
    types = [s["name"] for s in t["structs"]]
    for f in t["fields"]:
        if f["pointee"] not in types:
            types.append(f["pointee"])
    tid = {n: i for i, n in enumerate(types)}
    tags = []
    for s in t["structs"]:
        for x in s["tags"]:
            if x not in tags:
                tags.append(x)
    gid = {n: i + 1 for i, n in enumerate(tags)}             # 0 = "no tag" (struct without a switch)
    fns = ["free"]
    def fn_id(n):
        if n not in fns:
            fns.append(n)
        return fns.index(n)
    for d in t["dels"]:
        fn_id(d["fn"])
    fid = {}
    for i, f in enumerate(t["fields"]):
        fid[(f["struct"], f["path"])] = i
    conds = [""]
    def cond_id(c):
        if c not in conds:
            conds.append(c)
        return conds.index(c)
    names_seen = {}
    def const(prefix, name, value, out):
        nm = ident(name)
        key = (prefix, nm)
        if key in names_seen and names_seen[key] != value:
            problems.append("two %s constants would be called %s.%s" % (prefix, prefix, nm)); return
        if key not in names_seen:
            names_seen[key] = value
            out.append("def %s.%s : Nat := %d" % (prefix, nm, value))

    L = ["/- GENERATED by gen/owntab.py from clang-14's AST of every translation unit of front/ and back/ of the CURRENT tree.",
         "   Regenerated before every `lake build` of a check (checks/common.py regen_all); the committed copy is the table of the",
         "   tree the framework was last run on.  Do not edit.",
         "   Numbers are what the theorems compare (types, tags, functions, fields are numbered below); strings are for the reader. -/",
         "namespace Never.Gen.OwnTab", "",
         "/-- a pointer-typed member of a struct that has a delete function: `id` = its index in `fields`, `struct`/`pointee` index `typeNames`,",
         "`off` = byte offset (members of a union share offsets), `dtor` = the function that releases a value of the pointee type (the delete function",
         "whose parameter is a pointer to it; `free` when there is none), `name` = `struct.member.path` -/",
         "structure Field where", "  id : Nat", "  struct : Nat", "  off : Nat", "  pointee : Nat", "  dtor : Nat", "  inUnion : Bool", "  name : String", "  deriving Repr", "",
         "/-- one release performed by a delete function: `fn(v->path)`.  `field` = the member the path names (its head member when the path goes on",
         "through `->`/`[]`: then `deep`), `off` that member's offset, `guarded` = under `if (v->path != NULL)`, `cond` = index into `condTexts` of any",
         "other condition on the way (0: none), `chain` = `fn` is applied to every node of the list linked through a member of the node,",
         "`link` = 1 + the offset of that link member in the node struct (0: no chain) -/",
         "structure Rel where", "  field : Nat", "  off : Nat", "  fn : Nat", "  guarded : Bool", "  cond : Nat", "  deep : Bool", "  chain : Bool", "  link : Nat", "  text : String", "  deriving Repr", "",
         "/-- the releases on the switch arms selected by the tags `labels` (fall-through already followed); `mask` = Σ 2^label -/",
         "structure Arm where", "  labels : List Nat", "  mask : Nat", "  rels : List Rel", "  deriving Repr", "",
         "/-- source of a value stored into a pointer member -/",
         "inductive Src where", "  | param    -- a parameter of the constructor: ownership handed in", "  | fresh    -- result of a call (strdup, malloc, T_new…)",
         "  | null", "  | borrow   -- a member of / address inside something else, or a value whose origin the translator does not follow", "  | move     -- another member of the same node", "  | other",
         "  deriving Repr, DecidableEq", "",
         "structure Init where", "  field : Nat", "  off : Nat", "  src : Src", "  conditional : Bool", "  arg : String", "  deriving Repr", "",
         "/-- a constructor `struct * fn(…)`: `tags` = the tag values it can store (a constant; or, when the tag is a parameter, the constants passed at",
         "every call site of the tree; [] for a struct without tag), `mask` = Σ 2^tag, `zeroed` = calloc/memset -/",
         "structure Ctor where", "  struct : Nat", "  tags : List Nat", "  mask : Nat", "  inits : List Init", "  zeroed : Bool", "  name : String", "  deriving Repr", "",
         "/-- a delete function `fn(struct * v)`: `tags` = every enumerator of the type of the member it switches on ([] when it does not switch),",
         "`common` = releases outside the switch, `isArray` = the parameter is an array of `struct` with a size, `isOpaque` = the parameter is not a",
         "pointer to a struct of the project (`char **`); `fields` / `ctors` = the pointer members and the constructors of the struct -/",
         "structure Del where", "  fn : Nat", "  struct : Nat", "  isArray : Bool", "  isOpaque : Bool", "  tags : List Nat", "  common : List Rel", "  arms : List Arm",
         "  fields : List Field", "  ctors : List Ctor", "  freesSelf : Bool", "  name : String", "  deriving Repr", "",
         "/-- a store of the constant `tag` into the tag member of an existing node, in function `fn` (`count` sites of the same shape).",
         "`frm` = tags the node can have before (enclosing `case`/`==` tests, or the `case` labels at every call site of the function; []: unknown),",
         "`fresh` = the node is memory the function has just allocated; within the block of the store: `released` = (offset, function) of the members handed",
         "to a function, `stored` = (field, offset, source, offset of the member a moved value comes from), `copied` = `*y = *x` -/",
         "structure Retag where", "  fn : Nat", "  struct : Nat", "  tag : Nat", "  frm : List Nat", "  fresh : Bool", "  released : List (Nat × Nat)", "  stored : List (Nat × Nat × Src × Nat)",
         "  copied : Bool", "  count : Nat", "  name : String", "  deriving Repr", "",
         "/-- stores into a pointer member outside constructors and delete functions (`x->member = …` / `x[i].member = …` with x a variable), by kind of source -/",
         "structure Late where", "  field : Nat", "  src : Src", "  fns : String", "  deriving Repr", "",
         "/-- a local variable that receives a fresh allocation (malloc/calloc/strdup/realloc/`*_new*`) in some function: `lost` = on some path to the",
         "end of the function it is neither passed to a function (read-only libc functions aside), nor stored anywhere, nor returned -/",
         "structure LocalAlloc where", "  lost : Bool", "  name : String", "  deriving Repr", ""]
    C = []
    for i, n in enumerate(types):
        const("S", n, i, C)
    for n in tags:
        const("T", n, gid[n], C)
    # field constants
    for i, f in enumerate(t["fields"]):
        const("F", f["struct"] + "__" + f["path"], i, C)

    def rel(d, r):
        f = fid.get((d["struct"], r["head"]), None)
        if f is None and not d["opaque"]:
            problems.append("%s: no field row for `%s`" % (d["fn"], r["head"]))
        link = 0
        if r["chain"]:
            node_t = next((x["pointee"] for x in t["fields"] if x["struct"] == d["struct"] and x["path"] == r["head"]), None)
            lf = next((x for x in t["fields"] if x["struct"] == node_t and x["path"] == r["chain"]), None)
            if lf is None:
                problems.append("%s: the list loop follows `%s`, which is not a pointer member of %s" % (d["fn"], r["chain"], node_t))
            else:
                link = lf["off"] + 1
        return "⟨%d, %d, %d, %s, %d, %s, %s, %d, %s⟩" % (f if f is not None else 0, r["off"], fn_id(r["fn"]), lb(r["guarded"]), cond_id(r["cond"]), lb(r["deep"]), lb(bool(r["chain"])), link,
                                                     ls("%s(%s)%s%s" % (r["fn"], r["path"], (" if " + r["cond"]) if r["cond"] else "", (" along ->" + r["chain"]) if r["chain"] else "")))
    deleter_of = {d["struct"]: d["fn"] for d in t["dels"]}
    def field_row(i, f):
        return "⟨%d, %d, %d, %d, %d, %s, %s⟩" % (i, tid[f["struct"]], f["off"], tid[f["pointee"]], fn_id(deleter_of.get(f["pointee"], "free")), lb(f["in_union"]), ls(f["struct"] + "." + f["path"]))
    def src(k):
        return "." + (k if k in ("param", "fresh", "null", "borrow", "move") else "other")
    def mask(xs):
        return sum(1 << gid[x] for x in xs)
    def ctor_row(c):
        def init(i):
            f = fid.get((c["struct"], i["path"]))
            if f is None:
                problems.append("%s: no field row for `%s`" % (c["fn"], i["path"])); f = 0
            return "⟨%d, %d, %s, %s, %s⟩" % (f, i["off"], src(i["kind"]), lb(i["cond"]), ls("%s <- %s%s" % (i["path"], i["kind"], (" " + i["arg"]) if i["arg"] else "")))
        return "{ struct := %d, tags := %s, mask := %d, zeroed := %s, name := %s,\n        inits := %s }" % \
               (tid[c["struct"]], ll([gid[x] for x in c["tags"]]), mask(c["tags"]), lb(c["zeroed"]),
                ls("%s  (%s)%s" % (c["fn"], c["file"], (" tag = parameter " + c["tag_param"]) if c["tag_param"] else "")), ll(c["inits"], init))
    D = []
    for d in t["dels"]:
        arms = ",\n".join("      ⟨%s, %d, %s⟩" % (ll([gid[x] for x in a["labels"]]), mask(a["labels"]), ll(a["rels"], lambda r: rel(d, r))) for a in d["arms"])
        fs = ",\n".join("      " + field_row(i, f) for i, f in enumerate(t["fields"]) if f["struct"] == d["struct"])
        cs = ",\n".join("      " + ctor_row(c) for c in t["ctors"] if c["struct"] == d["struct"])
        D.append("  { fn := %d, struct := %d, isArray := %s, isOpaque := %s, name := %s,\n    tags := %s,\n    common := %s,\n    arms := [%s],\n    fields := [%s],\n    ctors := [%s],\n    freesSelf := %s }" %
                 (fn_id(d["fn"]), tid[d["struct"]], lb(d["is_array"]), lb(d["opaque"]), ls("%s  (%s)" % (d["fn"], d["file"])),
                  ll([gid[x] for x in d["tags"]]), ll(d["common"], lambda r: rel(d, r)), ("\n" + arms) if arms else "", ("\n" + fs) if fs else "", ("\n" + cs) if cs else "", lb(d["frees_self"])))
    R = []
    for r in t["retags"]:
        def rl(x):
            return "(%d, %d)" % (x["off"], fn_id(x["fn"]))
        def sl(x):
            f = fid.get((r["struct"], x["path"]))
            return "(%d, %d, %s, %d)" % (f if f is not None else 0, x["off"], src(x["kind"]), x["frm_off"])
        R.append("  { fn := %d, struct := %d, tag := %d, frm := %s, fresh := %s, released := %s, stored := %s, copied := %s, count := %d,\n    name := %s }" %
                 (fn_id(r["fn"]), tid[r["struct"]], gid[r["tag"]], ll([gid[x] for x in r["frm"]]), lb(r["fresh"]), ll(r["released"], rl), ll(r["stored"], sl), lb(r["copied"]), r["count"],
                  ls("%s  (%s): %s -> %s; hands on %s; stores %s" % (r["fn"], r["file"], "|".join(r["frm"]) or "?", r["tag"],
                                                                      ", ".join("%s(%s)" % (x["fn"], x["path"]) for x in r["released"]) or "-",
                                                                      ", ".join("%s<-%s%s" % (x["path"], x["kind"], (" " + x["frm_path"]) if x["frm_path"] else "") for x in r["stored"]) or "-"))))
    LT = []
    for l in t["late"]:
        f = fid.get((l["struct"], l["path"]))
        if f is None:
            continue
        LT.append("  ⟨%d, %s, %s⟩" % (f, src(l["kind"]), ls("%s.%s <- %s in %s" % (l["struct"], l["path"], l["kind"], ", ".join(l["fns"][:8]) + (" …" if len(l["fns"]) > 8 else "")))))
    for n in fns:
        const("Fn", n, fns.index(n), C)
    L += ["/-- type names: the structs with a delete function first (in the order of `dels`), then the other pointee types -/",
          "def typeNames : List String := " + ll(types, ls), "", "/-- tag enumerators, numbered from 1 (0 = no tag) -/",
          "def tagNames : List String := " + ll([""] + tags, ls), "", "def fnNames : List String := " + ll(fns, ls), "",
          "def condTexts : List String := " + ll(conds, ls), ""]
    L += C
    L += ["", "/-- number of pointer members in the table (their ids are 0 … nFields-1, struct by struct) -/", "def nFields : Nat := %d" % len(t["fields"]), ""]
    L += ["/-- one row per delete function, in the order of the struct numbers (`dels[s]` is the delete function of type `s`) -/",
          "def dels : List Del := [", ",\n".join(D), "]", "",
          "def fields : List Field := dels.flatMap (·.fields)", "", "def ctors : List Ctor := dels.flatMap (·.ctors)", "",
          "def retags : List Retag := [", ",\n".join(R), "]", "", "def lates : List Late := [", ",\n".join(LT), "]", "",
          "def localAllocs : List LocalAlloc := [",
          ",\n".join("  ⟨%s, %s⟩" % (lb(bool(r["lost"])), ls("%s  (%s): %s = %s(…)%s" % (r["fn"], r["file"], r["var"], r["alloc"], (" LOST on: " + ", ".join(r["lost"])) if r["lost"] else ""))) for r in t["locals"]),
          "]", "",
          "/-- functions of the `*_new*` family that allocate no node of their own (they combine other constructors) -/",
          "def builders : List String := " + ll(t["builders"], ls), "",
          "/-- functions of the `*_delete*` family that do not free their parameter and are inlined into the delete function that calls them -/",
          "def helpers : List String := " + ll(t["helpers"], ls), "",
          "/-- functions of the `*_delete*` family whose parameter points to a type defined outside the project (members unknown) -/",
          "def foreignDeleters : List String := " + ll(t["foreign"], ls), "",
          "/-- constructors that leave the tag to their caller -/",
          "def rawCtors : List String := " + ll(t["raw_ctors"], ls), "",
          "/-- constructors that store through a pointer member of the new node which they did not set before (function, member path) -/",
          "def wildStores : List (String × String) := " + ll(t["wild"], lambda x: "(%s, %s)" % (ls(x[0]), ls(x[1]))), "",
          "/-- shapes the translator could not classify (a broken tie when non-empty) -/",
          "def problems : List String := " + ll(problems, ls), "",
          "end Never.Gen.OwnTab", ""]
    t["render_problems"] = [p for p in problems if p not in t["problems"]]
    return "\n".join(L)

def write(src, out_dir=OUT_DIR):
    """extract and write Gen/OwnTab.lean (only when the text changes); the table is cached next to the built sources"""
    me = hashlib.sha256(open(os.path.abspath(__file__), "rb").read()).hexdigest()[:16]
    cache = os.path.join(os.path.dirname(src.rstrip("/")), "owntab-%s.pickle" % me)
    t = None
    if os.path.exists(cache):
        try:
            t = pickle.load(open(cache, "rb"))
        except Exception:
            t = None
    if t is None:
        t = extract(src)
        try:
            pickle.dump(t, open(cache + ".tmp%d" % os.getpid(), "wb"))
            os.replace(cache + ".tmp%d" % os.getpid(), cache)
        except OSError:
            pass
    out = os.path.join(out_dir, "OwnTab.lean")
    txt = render(t)
    t["problems"] = t["problems"] + [p for p in t.get("render_problems", []) if p not in t["problems"]]
    old = open(out).read() if os.path.exists(out) else None
    if old != txt:
        open(out, "w").write(txt)
    return t

def generate():
    sys.path.insert(0, os.path.join(os.path.dirname(HERE), "checks"))
    import buildimpl
    info = buildimpl.build("plain")
    return write(info["src"])

if __name__ == "__main__":
    if len(sys.argv) > 1:
        t = extract(sys.argv[1])
    else:
        t = generate()
    print(json.dumps(dict(structs=len(t["structs"]), fields=len(t["fields"]), dels=len(t["dels"]), ctors=len(t["ctors"]), retags=len(t["retags"]),
                          builders=len(t["builders"]), helpers=t["helpers"], problems=t["problems"]), indent=1))
