#!/usr/bin/env python3
"""Translator (T) for C15: the mutable state that outlives one call of the compiler.

From the CURRENT tree (sources as built by checks/buildimpl.py, so parser.c/scanner.c are the files bison/flex generate from
parser.y/scanner.l) clang-14's typed AST gives, for every translation unit of front/ and back/:
  * every variable with static storage duration: file-scope definitions and function-local `static`s;
  * whether its type is const-qualified (tables);
  * the functions that write it directly (assignment / compound assignment / ++ / --, through array subscripts and
    struct members but not through pointers), writes to an `extern` declaration are attributed to the definition by name;
  * the call graph, and from it the functions reachable from the compile entry points (nev_compile_str, nev_compile_file,
    nev_compile_str_main, nev_compile_file_main, nev_compile).
Output: lean/NeverModel/Gen/Globals.lean (`Never.Gen.Globals.vars`, `compileReach`).  Shapes that are not recognised are
collected in `problems` (a broken tie); the caller reports them."""
import os, sys, json, subprocess, glob

HERE = os.path.dirname(os.path.abspath(__file__))
OUT = os.path.join(os.path.dirname(HERE), "lean", "NeverModel", "Gen", "Globals.lean")
ENTRY = ["nev_compile_str", "nev_compile_file", "nev_compile_str_main", "nev_compile_file_main", "nev_compile", "nev_compile_prog"]

def dump(src, f):
    p = subprocess.run(["clang-14", "-fsyntax-only", "-w", "-Xclang", "-ast-dump=json"] + ["-I" + os.path.join(src, d) for d in ("include", "front", "back", ".")] + [f],
                       stdout=subprocess.PIPE, stderr=subprocess.PIPE)
    if p.returncode != 0 or not p.stdout:
        raise RuntimeError("clang-14 failed on %s: %s" % (f, p.stderr.decode()[-300:]))
    return json.loads(p.stdout)

def base(e):
    """the variable an lvalue expression denotes directly (None when it goes through a pointer)"""
    while True:
        k = e.get("kind")
        if k == "DeclRefExpr":
            d = e.get("referencedDecl", {})
            return (d.get("name"), d.get("id")) if d.get("kind") == "VarDecl" else None
        if k == "MemberExpr":
            if e.get("isArrow"):
                return None
            e = e["inner"][0]; continue
        if k in ("ParenExpr", "ImplicitCastExpr", "ArraySubscriptExpr", "CStyleCastExpr") and e.get("inner"):
            e = e["inner"][0]; continue
        return None

def walk(n, fn, acc):
    k = n.get("kind")
    if k == "VarDecl" and fn is not None and n.get("storageClass") == "static":
        acc["locals"].append((fn, n["name"], n["type"]["qualType"], n["id"]))
    if k in ("BinaryOperator", "CompoundAssignOperator") and n.get("opcode", "") in ("=", "+=", "-=", "*=", "/=", "%=", "|=", "&=", "^=", "<<=", ">>="):
        r = base(n["inner"][0])
        if r: acc["writes"].append((fn, r))
    if k == "UnaryOperator" and n.get("opcode") in ("++", "--"):
        r = base(n["inner"][0])
        if r: acc["writes"].append((fn, r))
    if k == "CallExpr" and n.get("inner"):
        c = n["inner"][0]
        while c.get("kind") in ("ImplicitCastExpr", "ParenExpr") and c.get("inner"):
            c = c["inner"][0]
        if c.get("kind") == "DeclRefExpr" and c.get("referencedDecl", {}).get("kind") == "FunctionDecl":
            acc["calls"].append((fn, c["referencedDecl"]["name"]))
    if k == "DeclRefExpr" and n.get("referencedDecl", {}).get("kind") == "FunctionDecl" and fn is not None:
        acc["calls"].append((fn, n["referencedDecl"]["name"]))     # address taken (dispatch tables): counted as a call edge
    for c in n.get("inner", []):
        walk(c, fn, acc)

def extract(src):
    vars_, writes_by_name, calls, problems = [], {}, {}, []
    files = sorted(glob.glob(os.path.join(src, "front", "*.c")) + glob.glob(os.path.join(src, "back", "*.c")))
    if not files:
        problems.append("no sources under %s" % src)
    for f in files:
        rel = os.path.relpath(f, src)
        try:
            d = dump(src, f)
        except Exception as e:
            problems.append(str(e)[:300]); continue
        acc = dict(locals=[], writes=[], calls=[])
        defs, externs, cur = {}, {}, None
        for n in d.get("inner", []):
            loc = n.get("loc", {})
            if "file" in loc:
                cur = loc["file"]
            if n.get("kind") == "VarDecl" and not n.get("isImplicit"):
                here = cur and os.path.abspath(cur).startswith(os.path.abspath(src)) and not cur.endswith(".h")
                if n.get("storageClass") == "extern" or not here:
                    externs[n["id"]] = n["name"]
                else:
                    defs[n["id"]] = (n["name"], n["type"]["qualType"], n.get("storageClass", ""))
            if n.get("kind") == "FunctionDecl":
                if "inner" in n and any(c.get("kind") == "CompoundStmt" for c in n["inner"]):
                    walk(n, n["name"], acc)
            elif n.get("kind") == "VarDecl":
                for c in n.get("inner", []):
                    walk(c, "<init:%s>" % n.get("name"), acc)     # initialisers of tables mention the handlers
        for fn, (nm, i) in acc["writes"]:
            if i in defs or i in externs:
                writes_by_name.setdefault(nm, set()).add(fn)
            # locals (automatic) are not in defs/externs: ignored
        loc_ids = {i: (fn, nm) for fn, nm, t, i in acc["locals"]}
        for fn, (nm, i) in acc["writes"]:
            if i in loc_ids:
                writes_by_name.setdefault(loc_ids[i][0] + "." + nm, set()).add(fn)
        for i, (nm, t, sc) in defs.items():
            vars_.append(dict(file=rel, name=nm, type=t, scope="file", static=(sc == "static"), owner=""))
        for fn, nm, t, i in acc["locals"]:
            vars_.append(dict(file=rel, name=fn + "." + nm, type=t, scope="function", static=True, owner=fn))
        for a, b in acc["calls"]:
            calls.setdefault(a, set()).add(b)
    for v in vars_:
        v["const"] = v["type"].startswith("const ") and "*" not in v["type"].split("[")[0].replace("const char *const", "")
        v["writers"] = sorted(writes_by_name.get(v["name"], []))
    reach, todo = set(), [e for e in ENTRY]
    while todo:
        x = todo.pop()
        if x in reach: continue
        reach.add(x)
        todo += list(calls.get(x, []))
    if not any(e in calls for e in ENTRY):
        problems.append("none of the compile entry points %s was found" % ENTRY)
    interesting = set()
    for v in vars_:
        interesting.update(v["writers"]); 
        if v["owner"]: interesting.add(v["owner"])
    return vars_, sorted(r for r in reach if r in interesting), problems

def lean_str(s):
    return '"' + s.replace("\\", "\\\\").replace('"', '\\"') + '"'

def write(src, out=OUT):
    vars_, reach, problems = extract(src)
    vars_.sort(key=lambda v: (v["file"], v["name"]))
    L = ["/- GENERATED by gen/globals.py from the current tree; do not edit -/", "namespace Never.Gen.Globals", "",
         "structure Var where", "  file : String", "  name : String", "  ctype : String", "  isConst : Bool", "  owner : String", "  writers : List String",
         "  deriving Repr, DecidableEq", "", "def vars : List Var := ["]
    L.append(",\n".join("  { file := %s, name := %s, ctype := %s, isConst := %s, owner := %s, writers := [%s] }" %
                        (lean_str(v["file"]), lean_str(v["name"]), lean_str(v["type"]), "true" if v["const"] else "false",
                         lean_str(v["owner"]), ", ".join(lean_str(w) for w in v["writers"])) for v in vars_))
    L += ["]", "", "/-- functions reachable from the compile entry points through direct calls and address-taken functions -/",
          "def compileReach : List String := [" + ", ".join(lean_str(r) for r in reach) + "]", "",
          "def problems : List String := [" + ", ".join(lean_str(p) for p in problems) + "]", "", "end Never.Gen.Globals", ""]
    txt = "\n".join(L)
    old = open(out).read() if os.path.exists(out) else None
    if old != txt:
        open(out, "w").write(txt)
    return dict(vars=len(vars_), mutable=len([v for v in vars_ if not v["const"]]), reach=len(reach), problems=problems)

if __name__ == "__main__":
    print(write(sys.argv[1]))
