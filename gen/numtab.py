#!/usr/bin/env python3
"""TRANSLATOR (T-tie of C10/C11): regenerates lean/NeverModel/Gen/{VmArith,ConstRed,ConvMatrix,
EmitSelect}.lean from the C SOURCE TEXT of a never-lang tree (clang-14 JSON AST: macros expanded,
implicit conversions explicit, every expression typed by clang).

    numtab.generate(srcdir)  -> dict name -> Lean text         (raises Tie on an unrecognised shape)
    numtab.write(srcdir, gendir) -> (changed files, stats)

What is read from where
  back/vmexec.c    vm_execute_op[] (opcode -> handler, by array index), every arithmetic / compare /
                   bitwise / shift / not / conversion handler: getter types and stack slots, guard,
                   allocator type, result expression (typed CExpr)
  back/bytecode.h  enum bytecode_type (opcode numbering)
  front/constred.c every `if (left->type == EXPR_x && right->type == EXPR_y)` clause of the operator
                   folders and of expr_conv_constred, the dispatch switch of expr_constred
  front/enumred.c  the same for the enumerator-value folder (int only)
  front/typecheck.c expr_conv_basic_type / expr_conv_ass_type / expr_conv_enumtype / param_expr_cmp
                   cells, the per-operator typing chains expr_*_check_type, dispatch switch
  front/expr.c     conv_to_comb_type
  front/emit.c     opcode chosen by expr_*_emit per (combined type, operand types), expr_conv_emit,
                   dispatch switch of expr_emit
A clause or handler whose shape is not recognised raises Tie (= broken tie), it is never skipped.
"""
import json, os, re, subprocess, sys

class Tie(Exception):
    pass

# ------------------------------------------------------------------ clang AST access

def clang_ast(src, relfile, filt):
    cmd = ["clang-14", "-fsyntax-only", "-w", "-Xclang", "-ast-dump=json", "-Xclang", "-ast-dump-filter=" + filt,
           "-I", "include", "-I", "front", "-I", "back", "-I", ".", relfile]
    r = subprocess.run(cmd, cwd=src, stdout=subprocess.PIPE, stderr=subprocess.PIPE, text=True)
    if r.returncode != 0:
        raise Tie("clang failed on %s: %s" % (relfile, r.stderr[-2000:]))
    s, d, i, n, out = r.stdout, json.JSONDecoder(), 0, len(r.stdout), []
    while i < n:
        while i < n and s[i].isspace():
            i += 1
        if i >= n:
            break
        o, i = d.raw_decode(s, i)
        out.append(o)
    return out

def functions(docs):
    fs = {}
    for o in docs:
        if o.get("kind") == "FunctionDecl":
            body = [c for c in o.get("inner", []) if c.get("kind") == "CompoundStmt"]
            if body:
                fs[o["name"]] = body[0]
    return fs

def kids(n):
    return [c for c in n.get("inner", []) if c]

SKIP_CASTS = ("LValueToRValue", "NoOp", "FunctionToPointerDecay", "ArrayToPointerDecay")

def strip(n):
    """drop parentheses and value-preserving wrappers"""
    while True:
        k = n.get("kind")
        if k in ("ParenExpr", "ConstantExpr"):
            n = kids(n)[0]
        elif k in ("ImplicitCastExpr", "CStyleCastExpr") and n.get("castKind") in SKIP_CASTS:
            n = kids(n)[0]
        else:
            return n

def strip_enumcast(n):
    """like strip, and also drops the IntegralCast clang puts around enum constants / enum lvalues in comparisons"""
    n = strip(n)
    while n.get("kind") in ("ImplicitCastExpr", "CStyleCastExpr") and n.get("castKind") == "IntegralCast":
        n = strip(kids(n)[0])
    return n

def path(n, alias=None):
    """access path of an lvalue-ish expression as C text (anonymous struct/union members elided)"""
    n = strip(n)
    k = n.get("kind")
    if k == "DeclRefExpr":
        nm = n["referencedDecl"]["name"]
        if alias and nm in alias:
            return alias[nm]
        return nm
    if k == "MemberExpr":
        base = path(kids(n)[0], alias)
        if base is None:
            return None
        nm = n.get("name", "")
        if nm == "":
            return base
        # an anonymous member between base and nm keeps the arrow of the anonymous access
        arrow = n.get("isArrow")
        inner = strip(kids(n)[0])
        while inner.get("kind") == "MemberExpr" and inner.get("name", "") == "":
            arrow = arrow or inner.get("isArrow")
            inner = strip(kids(inner)[0])
        return base + ("->" if arrow else ".") + nm
    if k == "UnaryOperator" and n.get("opcode") == "*":
        b = path(kids(n)[0], alias)
        return None if b is None else "*" + b
    if k == "ArraySubscriptExpr":
        a, i = kids(n)
        pa = path(a, alias)
        if pa is None:
            return None
        ii = strip(i)
        if ii.get("kind") == "BinaryOperator" and ii.get("opcode") == "-":
            l, r = kids(ii)
            pl = path(l, alias)
            rr = strip(r)
            if pl is not None and rr.get("kind") == "IntegerLiteral":
                return "%s[%s-%s]" % (pa, pl, rr["value"])
            return None
        pi = path(i, alias)
        return None if pi is None else "%s[%s]" % (pa, pi)
    return None

def qt(n):
    t = n.get("type", {})
    return t.get("desugaredQualType", t.get("qualType"))

CTY = {"int": "int", "long long": "long", "float": "float", "double": "double", "char": "char"}

def cty(n, where):
    t = qt(n)
    if t not in CTY:
        raise Tie("%s: C type `%s` is outside the modelled set int/long long/float/double/char" % (where, t))
    return CTY[t]

BINOPS = {"+": "add", "-": "sub", "*": "mul", "/": "div", "%": "rem", "<": "lt", ">": "gt", "<=": "le", ">=": "ge",
          "==": "eq", "!=": "ne", "&": "band", "|": "bor", "^": "bxor", "<<": "shl", ">>": "shr", "&&": "land", "||": "lor"}
UNOPS = {"-": "neg", "!": "lnot", "~": "bnot"}
VALUE_CASTS = ("IntegralCast", "IntegralToFloating", "FloatingToIntegral", "FloatingCast")

def cexpr(n, leaf, where):
    """typed C expression -> tuple tree.  leaf(node) -> ('a'|'b', ty) or None"""
    k = n.get("kind")
    if k in ("ParenExpr", "ConstantExpr"):
        return cexpr(kids(n)[0], leaf, where)
    if k in ("ImplicitCastExpr", "CStyleCastExpr"):
        ck = n.get("castKind")
        if ck in SKIP_CASTS:
            lf = leaf(n)
            if lf is not None:
                return lf
            return cexpr(kids(n)[0], leaf, where)
        if ck in VALUE_CASTS:
            inner = kids(n)[0]
            e = cexpr(inner, leaf, where)
            dst = cty(n, where + " cast target")
            # a converted small integer literal is that literal at the target type (exact in every modelled type)
            if e[0] == "lit" and e[1] in ("int", "long", "char") and abs(e[2]) <= (127 if dst == "char" else 2 ** 24):
                return ("lit", dst, e[2])
            return ("cast", cty(inner, where + " cast source"), dst, e)
        raise Tie("%s: cast kind %s not modelled" % (where, ck))
    lf = leaf(n)
    if lf is not None:
        return lf
    if k == "IntegerLiteral":
        return ("lit", cty(n, where), int(n["value"]))
    if k == "FloatingLiteral":
        v = float(n["value"])
        if v != int(v) or abs(v) > 2 ** 24:
            raise Tie("%s: floating literal %s not modelled" % (where, n["value"]))
        return ("lit", cty(n, where), int(v))
    if k == "UnaryOperator":
        op = n.get("opcode")
        if op not in UNOPS:
            raise Tie("%s: unary operator %s not modelled" % (where, op))
        return ("un", UNOPS[op], cty(n, where), cexpr(kids(n)[0], leaf, where))
    if k == "BinaryOperator":
        op = n.get("opcode")
        if op not in BINOPS:
            raise Tie("%s: binary operator %s not modelled" % (where, op))
        l, r = kids(n)
        # the type the operation is performed at = type of the (converted) left operand
        return ("bin", BINOPS[op], cty(l, where + " operand"), cexpr(l, leaf, where), cexpr(r, leaf, where))
    raise Tie("%s: expression node %s not modelled" % (where, k))

def lean_cexpr(e):
    t = e[0]
    if t in ("a", "b"):
        return "(.op%s .%s)" % (t.upper(), e[1])
    if t == "lit":
        return "(.lit .%s (%d))" % (e[1], e[2])
    if t == "un":
        return "(.un .%s .%s %s)" % (e[1], e[2], lean_cexpr(e[3]))
    if t == "bin":
        return "(.bin .%s .%s %s %s)" % (e[1], e[2], lean_cexpr(e[3]), lean_cexpr(e[4]))
    if t == "cast":
        return "(.cast .%s .%s %s)" % (e[1], e[2], lean_cexpr(e[3]))
    raise Tie("internal: " + repr(e))

def opt(x, f=lambda v: "." + v):
    return "none" if x is None else "(some %s)" % f(x)

# ------------------------------------------------------------------ back/vmexec.c

ARITH = r"vm_execute_op_(neg|add|sub|mul|div|mod|lt|gt|lte|gte|eq|neq)_(int|long|float|double|char)$"
BITW = r"vm_execute_op_bin_(not|and|or|xor|shl|shr)_(int|long)$"
NOTR = r"vm_execute_op_not_(int|long)$"
CONVR = r"vm_execute_(int|long|float|double)_to_(int|long|float|double)$"
SEMOP = {"neg": ("un", "neg"), "not": ("un", "not"), "bin_not": ("un", "bnot"),
         "add": ("bin", "add"), "sub": ("bin", "sub"), "mul": ("bin", "mul"), "div": ("bin", "div"), "mod": ("bin", "mod"),
         "lt": ("bin", "lt"), "gt": ("bin", "gt"), "lte": ("bin", "lte"), "gte": ("bin", "gte"), "eq": ("bin", "eq"), "neq": ("bin", "neq"),
         "bin_and": ("bin", "band"), "bin_or": ("bin", "bor"), "bin_xor": ("bin", "bxor"), "bin_shl": ("bin", "shl"), "bin_shr": ("bin", "shr")}

def handler_sem(name):
    m = re.match(ARITH, name)
    if m:
        k, o = SEMOP[m.group(1)]
        return (k, m.group(2), o)
    m = re.match(BITW, name)
    if m:
        k, o = SEMOP["bin_" + m.group(1)]
        return (k, m.group(2), o)
    m = re.match(NOTR, name)
    if m:
        return ("un", m.group(1), "not")
    m = re.match(CONVR, name)
    if m:
        return ("conv", m.group(1), m.group(2))
    return None

def call_name(n):
    n = strip(n)
    if n.get("kind") != "CallExpr":
        return None, []
    f = strip(kids(n)[0])
    if f.get("kind") != "DeclRefExpr":
        return None, []
    return f["referencedDecl"]["name"], kids(n)[1:]

def vm_handler(name, body):
    """-> dict(getA, getB, guard, exc, alloc, expr).  Locals are recognised by what they hold, not by their names:
    operands = locals initialised by gc_get_<t>(collector, stack[sp-1 | sp].addr); a is the one at sp-1 in a binary handler"""
    W = "back/vmexec.c:" + name
    st = kids(body)
    ops, alloc, guard, exc, store, pops = {}, None, None, None, None, 0
    addr_vars, entry_vars = set(), set()
    def leaf(n):
        s = strip(n)
        if s.get("kind") == "DeclRefExpr" and s["referencedDecl"]["name"] in ops:
            v = s["referencedDecl"]["name"]
            return ("$" + v, ops[v]["cty"])
        return None
    def take_alloc(call):
        nonlocal alloc
        fn, args = call_name(call)
        if fn is None or not fn.startswith("gc_alloc_") or len(args) != 2 or path(args[0]) != "machine->collector":
            raise Tie("%s: result is not allocated by gc_alloc_<t>(machine->collector, expr)" % W)
        if alloc is not None:
            raise Tie("%s: two allocations" % W)
        t = fn[len("gc_alloc_"):]
        if t not in ("int", "long", "float", "double", "char"):
            raise Tie("%s: allocator %s not modelled" % (W, fn))
        # the argument is converted to the allocator's parameter type by clang (implicit cast already in the tree)
        alloc = (t, cexpr(args[1], leaf, W))
        at = cty(args[1], W + " allocator argument")
        if at != t:
            raise Tie("%s: allocator %s receives a value of C type %s" % (W, fn, at))
    for s in st:
        k = s.get("kind")
        if k == "DeclStmt":
            v = kids(s)[0]
            vn = v.get("name")
            init = kids(v)[0] if kids(v) else None
            vt = qt(v)
            if vt in ("gc_stack", "struct gc_stack"):
                entry_vars.add(vn)
                continue
            fn, args = call_name(init) if init is not None else (None, [])
            if fn is not None and fn.startswith("gc_get_"):
                if len(args) != 2 or path(args[0]) != "machine->collector":
                    raise Tie("%s: operand %s is not read by gc_get_<t>(machine->collector, ...)" % (W, vn))
                slot = path(args[1])
                if slot not in ("machine->stack[machine->sp].addr", "machine->stack[machine->sp-1].addr"):
                    raise Tie("%s: operand %s read from unexpected place %s" % (W, vn, slot))
                t = fn[len("gc_get_"):]
                if t not in ("int", "long", "float", "double", "char"):
                    raise Tie("%s: getter %s not modelled" % (W, fn))
                if cty(v, W) != t:
                    raise Tie("%s: operand %s declared %s but read with %s" % (W, vn, qt(v), fn))
                ops[vn] = dict(get=t, slot=0 if slot.endswith("[machine->sp].addr") else 1, cty=cty(v, W))
                continue
            if vt in ("mem_ptr", "unsigned int"):
                addr_vars.add(vn)
                i2 = strip_enumcast(init) if init else None
                if i2 is None or i2.get("kind") == "IntegerLiteral":
                    continue
                take_alloc(init)
                continue
            raise Tie("%s: unexpected local %s" % (W, vn))
        if k == "IfStmt":
            if guard is not None:
                raise Tie("%s: more than one guard" % W)
            if alloc is not None:
                raise Tie("%s: guard after the result was computed" % W)
            c = kids(s)
            if len(c) != 2:
                raise Tie("%s: guard with else branch" % W)
            guard = cexpr(c[0], leaf, W + " guard")
            seen_ret = False
            for g in kids(c[1]):
                gk = g.get("kind")
                if gk == "CallExpr" and call_name(g)[0] == "print_error_msg":
                    continue
                if gk == "BinaryOperator" and g.get("opcode") == "=":
                    l, r = kids(g)
                    pl = path(l)
                    rv = strip_enumcast(r)
                    rn = rv["referencedDecl"]["name"] if rv.get("kind") == "DeclRefExpr" else None
                    if pl == "machine->running" and rn == "VM_EXCEPTION":
                        continue
                    if pl == "machine->exception" and rn and rn.startswith("EXCEPT_"):
                        exc = rn
                        continue
                if gk == "ReturnStmt":
                    seen_ret = True
                    continue
                raise Tie("%s: unexpected statement in guard body" % W)
            if not seen_ret or exc is None:
                raise Tie("%s: guard does not raise an exception and return" % W)
            continue
        if k == "BinaryOperator" and s.get("opcode") == "=":
            l, r = kids(s)
            pl = path(l)
            if pl in addr_vars:
                take_alloc(r)
                continue
            if pl is not None and pl.split(".")[0] in entry_vars and pl.endswith(".type") and path(strip_enumcast(r)) == "GC_MEM_ADDR":
                continue
            if pl is not None and pl.split(".")[0] in entry_vars and pl.endswith(".addr") and path(r) in addr_vars:
                continue
            if pl in ("machine->stack[machine->sp]", "machine->stack[machine->sp-1]") and path(r) in entry_vars:
                store = 0 if pl.endswith("[machine->sp]") else 1
                continue
            raise Tie("%s: unexpected assignment to %s" % (W, pl))
        if k == "UnaryOperator" and s.get("opcode") == "--" and path(kids(s)[0]) == "machine->sp":
            pops += 1
            continue
        raise Tie("%s: unexpected statement %s" % (W, k))
    if alloc is None or store is None:
        raise Tie("%s: no result allocation / store" % W)
    names = sorted(ops, key=lambda v: -ops[v]["slot"])
    if len(names) == 2:
        va, vb = names
        if not (ops[va]["slot"] == 1 and ops[vb]["slot"] == 0 and store == 1 and pops == 1):
            raise Tie("%s: binary handler does not follow a=sp-1, b=sp, result at sp-1, sp--" % W)
    elif len(names) == 1:
        va, vb = names[0], None
        if not (ops[va]["slot"] == 0 and store == 0 and pops == 0):
            raise Tie("%s: unary handler does not follow a=sp, result at sp" % W)
    else:
        raise Tie("%s: %d operands" % (W, len(names)))
    def rename(e):
        if isinstance(e, tuple):
            if e[0] == "$" + va:
                return ("a", e[1])
            if vb is not None and e[0] == "$" + vb:
                return ("b", e[1])
            return tuple(rename(x) for x in e)
        return e
    return dict(getA=ops[va]["get"], getB=ops[vb]["get"] if vb else None, guard=rename(guard) if guard is not None else None, exc=exc,
                alloc=alloc[0], expr=rename(alloc[1]))

ASSR = r"vm_execute_op_ass_(int|long|float|double|char)$"

def ass_handler(name, body):
    """vm_execute_op_ass_<t>: a = gc_get_<t>(stack[sp]); gc_set_<t'>(stack[sp-1], a); sp--  -> (get, set)"""
    W = "back/vmexec.c:" + name
    get = setp = None
    pops = 0
    for s in kids(body):
        k = s.get("kind")
        if k == "DeclStmt":
            v = kids(s)[0]
            fn, args = call_name(kids(v)[0]) if kids(v) else (None, [])
            if v.get("name") == "a" and fn and fn.startswith("gc_get_") and len(args) == 2 and path(args[0]) == "machine->collector" \
               and path(args[1]) == "machine->stack[machine->sp].addr" and fn[7:] in CTY.values() and cty(v, W) == fn[7:]:
                get = fn[7:]
                continue
            raise Tie("%s: unexpected declaration" % W)
        if k == "CallExpr":
            fn, args = call_name(s)
            if fn and fn.startswith("gc_set_") and len(args) == 3 and path(args[0]) == "machine->collector" \
               and path(args[1]) == "machine->stack[machine->sp-1].addr" and path(args[2]) == "a" and fn[7:] in CTY.values() \
               and cty(args[2], W) == fn[7:]:
                setp = fn[7:]
                continue
            raise Tie("%s: unexpected call %s" % (W, fn))
        if k == "UnaryOperator" and s.get("opcode") == "--" and path(kids(s)[0]) == "machine->sp":
            pops += 1
            continue
        raise Tie("%s: unexpected statement %s" % (W, k))
    if get is None or setp is None or pops != 1:
        raise Tie("%s: not of the shape get/set/sp--" % W)
    return get, setp

EXC_NO = {"EXCEPT_NO_DIVISION": 1}

def enum_values(src, relfile, enum_name):
    docs = clang_ast(src, relfile, enum_name)
    for o in docs:
        if o.get("kind") == "EnumDecl" and o.get("name") == enum_name:
            vals, cur = {}, 0
            for c in kids(o):
                if c.get("kind") != "EnumConstantDecl":
                    continue
                ini = kids(c)
                if ini:
                    v = strip(ini[0])
                    if v.get("kind") == "ConstantExpr" or "value" in ini[0]:
                        cur = int(ini[0].get("value", v.get("value")))
                    elif v.get("kind") == "IntegerLiteral":
                        cur = int(v["value"])
                    else:
                        raise Tie("%s: enumerator %s has a non-literal value" % (enum_name, c["name"]))
                vals[c["name"]] = cur
                cur += 1
            return vals
    raise Tie("enum %s not found in %s" % (enum_name, relfile))

def gen_vmarith(src):
    docs = clang_ast(src, "back/vmexec.c", "vm_execute_")
    fs = functions(docs)
    bt = enum_values(src, "back/vmexec.c", "bytecode_type")
    # opcode table: array index = opcode number
    table = None
    for o in docs:
        if o.get("kind") == "VarDecl" and o.get("name") == "vm_execute_op":
            table = [c for c in kids(o) if c.get("kind") == "InitListExpr"][0]
    if table is None:
        raise Tie("vm_execute_op[] not found")
    op2h = {}
    for i, ent in enumerate(kids(table)):
        e = kids(ent)
        tn = path(strip_enumcast(e[0]))
        hn = path(e[1])
        if tn not in bt or bt[tn] != i:
            raise Tie("vm_execute_op[%d] is labelled %s (=%s): dispatch is by array index" % (i, tn, bt.get(tn)))
        op2h[tn] = hn
    rows = []
    for name in sorted(fs):
        sem = handler_sem(name)
        if sem is None:
            continue
        h = vm_handler(name, fs[name])
        h.update(name=name, sem=sem)
        rows.append(h)
    have = set(r["name"] for r in rows)
    ops, assrows = [], []
    for opc, hn in op2h.items():
        if handler_sem(hn) is not None:
            if hn not in have:
                raise Tie("opcode %s dispatches to %s which has no body in vmexec.c" % (opc, hn))
            ops.append((opc, hn))
        elif re.match(ASSR, hn):
            if hn not in fs:
                raise Tie("opcode %s dispatches to %s which has no body in vmexec.c" % (opc, hn))
            g, st_ = ass_handler(hn, fs[hn])
            assrows.append((hn, g, st_))
            ops.append((opc, hn))
    dispatched = set(h for _, h in ops)
    dead = [r["name"] for r in rows if r["name"] not in dispatched]
    rows = [r for r in rows if r["name"] in dispatched]
    out = ["/- GENERATED by gen/numtab.py from back/vmexec.c, back/bytecode.h — do not edit -/",
           "import NeverModel.Model.CExpr", "namespace Never.Gen.VmArith", "open Never.Num Never.CExpr", ""]
    out.append("def rows : List VmRow := [")
    items = []
    for r in rows:
        k = r["sem"][0]
        sem = {"bin": "(.bin .%s .%s)", "un": "(.un .%s .%s)", "conv": "(.conv .%s .%s)"}[k] % (r["sem"][1], r["sem"][2])
        g = "none" if r["guard"] is None else "(some (%s, %d))" % (lean_cexpr(r["guard"]), EXC_NO.get(r["exc"], 0))
        if r["guard"] is not None and r["exc"] not in EXC_NO:
            raise Tie("%s raises %s, not modelled" % (r["name"], r["exc"]))
        items.append('  { name := "%s", sem := %s, getA := .%s, getB := %s, guard := %s, alloc := .%s,\n    expr := %s }'
                     % (r["name"], sem, r["getA"], opt(r["getB"]), g, r["alloc"], lean_cexpr(r["expr"])))
    out.append(",\n".join(items) + " ]")
    out.append("")
    rowidx = dict((r["name"], i) for i, r in enumerate(rows))
    out.append("/-- vm_execute_op[]: (opcode number = array index, opcode name, index of the handler's row in `rows`) -/")
    out.append("def opcodes : List (Nat × String × Nat) := [")
    out.append(",\n".join('  (%d, "%s", %d)' % (bt[o], o, rowidx[h]) for o, h in sorted(ops, key=lambda x: bt[x[0]]) if h in rowidx) + " ]")
    out.append("")
    assd = dict((h, (g, s_)) for h, g, s_ in assrows)
    out.append("/-- vm_execute_op_ass_<t>: (opcode number, opcode name, gc_get type of the right value, gc_set type of the left object) -/")
    out.append("def assOpcodes : List (Nat × String × NTy × NTy) := [")
    out.append(",\n".join('  (%d, "%s", .%s, .%s)' % ((bt[o], o) + assd[h]) for o, h in sorted(ops, key=lambda x: bt[x[0]]) if h in assd) + " ]")
    out.append("")
    out.append("/-- handlers with a body but no entry in vm_execute_op[] (dead code, not part of the tables): %s -/" % ", ".join(dead))
    out.append("def deadHandlers : List String := [%s]" % ", ".join('"%s"' % d for d in dead))
    out.append("")
    out.append("end Never.Gen.VmArith")
    return "\n".join(out) + "\n", dict(vm_rows=len(rows), vm_opcodes=len(ops), vm_dead=dead), bt

# ------------------------------------------------------------------ if-chains (constred / typecheck / emit)

def if_chain(stmt):
    """IfStmt -> [(cond, then-body)], else-body (or None)"""
    out = []
    while stmt is not None and stmt.get("kind") == "IfStmt":
        c = kids(stmt)
        out.append((c[0], c[1]))
        stmt = c[2] if len(c) > 2 else None
    return out, stmt

def cond_atoms(n, alias=None):
    """condition -> nested ('and'|'or', l, r) / ('eq'|'ne', path, CONST) / ('call', fn) / ('other', text)"""
    n = strip(n)
    k = n.get("kind")
    if k == "BinaryOperator" and n.get("opcode") in ("&&", "||"):
        l, r = kids(n)
        return ("and" if n["opcode"] == "&&" else "or", cond_atoms(l, alias), cond_atoms(r, alias))
    if k == "BinaryOperator" and n.get("opcode") in ("==", "!="):
        l, r = kids(n)
        pl, pr = path(strip_enumcast(l), alias), strip_enumcast(r)
        if pl is not None and pr.get("kind") == "DeclRefExpr" and pr["referencedDecl"].get("kind") == "EnumConstantDecl":
            return ("eq" if n["opcode"] == "==" else "ne", pl, pr["referencedDecl"]["name"])
        pr2 = path(pr, alias)
        if pl is not None and pr2 is not None and n["opcode"] == "==":
            return ("eqpath", pl, pr2)
        return ("other", "cmp")
    if k == "CallExpr":
        fn, args = call_name(n)
        return ("call", fn, [path(a, alias) for a in args])
    return ("other", k)

def ev3(c, env):
    """three-valued evaluation; env: path -> constant name; unknown paths -> None"""
    t = c[0]
    if t == "and":
        a, b = ev3(c[1], env), ev3(c[2], env)
        if a is False or b is False:
            return False
        return True if (a is True and b is True) else None
    if t == "or":
        a, b = ev3(c[1], env), ev3(c[2], env)
        if a is True or b is True:
            return True
        return False if (a is False and b is False) else None
    if t in ("eq", "ne"):
        if c[1] in env:
            r = env[c[1]] == c[2]
            return r if t == "eq" else not r
        return None
    if t == "call":
        f = env.get("call:" + c[1])
        return f(c[2]) if f else None
    return None

# ------------------------------------------------------------------ front/constred.c, front/enumred.c

KIND = {"EXPR_BOOL": "bool", "EXPR_INT": "int", "EXPR_LONG": "long", "EXPR_FLOAT": "float", "EXPR_DOUBLE": "double",
        "EXPR_CHAR": "char", "EXPR_ENUMTYPE": "enumtype", "EXPR_STRING": "string"}
MEMBER_TY = {"int_value": "int", "long_value": "long", "float_value": "float", "double_value": "double", "char_value": "char",
             "enumtype.id_enumerator_value->index": "int"}
SRCOPS = ["neg", "add", "sub", "mul", "div", "mod", "lt", "gt", "lte", "gte", "eq", "neq", "and", "or", "not",
          "bin_not", "bin_and", "bin_or", "bin_xor", "bin_shl", "bin_shr", "sup"]

def fold_clause(where, cond, body, opnd_paths):
    """one `if (left->type == EXPR_x && right->type == EXPR_y)` clause.
    opnd_paths: {'a': 'value->left', 'b': 'value->right'} -> row dict or raises"""
    atoms = cond_atoms(cond)
    kinds = {}
    def walk(c):
        if c[0] == "and":
            walk(c[1]); walk(c[2]); return
        if c[0] == "ne" and c[1] == "*result" and c[2] in ("ENUMRED_FAIL", "CONSTRED_FAIL"):
            # status guard: the clause applies only while no reduction has failed; on the failing path the compile is refused,
            # so the value-level statement `fold = run` is about the clause as it stands (repo fix a186690)
            return
        if c[0] == "eq":
            for o, p in opnd_paths.items():
                if c[1] == p + "->type":
                    if c[2] not in KIND:
                        raise Tie("%s: literal kind %s not modelled" % (where, c[2]))
                    if o in kinds:
                        raise Tie("%s: operand kind tested twice" % where)
                    kinds[o] = KIND[c[2]]
                    return
        raise Tie("%s: clause condition is not a conjunction of `<operand>->type == EXPR_x` tests" % where)
    walk(atoms)
    if set(kinds) != set(opnd_paths):
        raise Tie("%s: clause does not test the kind of every operand" % where)
    return kinds

def fold_body(where, body, opnd_paths, kinds):
    """-> dict(guard, reskind, resmember, expr, special)"""
    alias, guard, reskind, res, special = {}, None, None, None, None
    def leaf(n):
        p = path(n, alias)
        if p is None:
            return None
        for o, base in opnd_paths.items():
            if p.startswith(base + "->"):
                mem = p[len(base) + 2:]
                if mem in MEMBER_TY:
                    s = strip(n)
                    if cty(s, where) != MEMBER_TY[mem]:
                        raise Tie("%s: member %s has C type %s" % (where, mem, qt(s)))
                    return (o, "idx" if mem.startswith("enumtype") else MEMBER_TY[mem])
                raise Tie("%s: operand member `%s` not modelled" % (where, mem))
        return None
    def cx(n, w):
        e = cexpr(n, leaf, w)
        return e
    deleted = set()
    for s in kids(body):
        k = s.get("kind")
        if k == "DeclStmt":
            v = kids(s)[0]
            p = path(kids(v)[0], alias) if kids(v) else None
            if p is None:
                raise Tie("%s: local %s is not an alias of an operand" % (where, v.get("name")))
            alias[v["name"]] = p
            continue
        if k == "IfStmt":
            c = kids(s)
            if guard is not None or len(c) != 2:
                raise Tie("%s: unexpected nested if" % where)
            g = cx(c[0], where + " guard")
            fail, ret = False, False
            for x in kids(c[1]):
                xk = x.get("kind")
                if xk == "BinaryOperator" and x.get("opcode") == "=" and path(kids(x)[0]) == "*result" and path(kids(x)[1]) == "CONSTRED_FAIL":
                    fail = True
                elif xk == "BinaryOperator" and x.get("opcode") == "=" and path(kids(x)[0]) == "*result" and path(kids(x)[1]) == "ENUMRED_FAIL":
                    fail = True
                elif xk == "CallExpr" and call_name(x)[0] == "print_error_msg":
                    msg = [strip(a) for a in kids(x)[1:]]
                    txt = [a.get("value", "") for a in msg if a.get("kind") == "StringLiteral"]
                    if not txt or "division by zero" not in txt[0]:
                        raise Tie("%s: guard reports %r, expected a division-by-zero diagnostic" % (where, txt))
                elif xk == "ReturnStmt":
                    ret = True
                else:
                    raise Tie("%s: unexpected statement in guard body" % where)
            if not (fail and ret):
                raise Tie("%s: guard does not fail the reduction and return" % where)
            guard = g
            continue
        if k == "BinaryOperator" and s.get("opcode") == "=":
            l, r = kids(s)
            pl = path(l, alias)
            if pl == "value->type":
                c = path(strip_enumcast(r))
                if c not in KIND:
                    raise Tie("%s: result kind %s not modelled" % (where, c))
                reskind = KIND[c]
                continue
            if pl == "value->comb.comb":
                continue      # checked against the kind below via `comb` (recorded separately)
            if pl in ("value->comb", "value->enumtype"):
                pr = path(r, alias)
                base = list(opnd_paths.values())[0]
                if pr == base + "->" + pl[len("value->"):]:
                    special = "copy_enumtype"
                    continue
                raise Tie("%s: unexpected struct copy" % where)
            if pl is not None and pl.startswith("value->") and pl[len("value->"):] in ("int_value", "long_value", "float_value", "double_value", "char_value"):
                mem = pl[len("value->"):]
                if res is not None:
                    raise Tie("%s: two result assignments" % where)
                if cty(r, where + " assigned value") != MEMBER_TY[mem]:
                    raise Tie("%s: value assigned to %s has C type %s" % (where, mem, qt(r)))
                res = (mem, cx(r, where))
                continue
            if pl == "value->string_value":
                special = "string"
                continue
            raise Tie("%s: unexpected assignment to %s" % (where, pl))
        if k == "CallExpr":
            fn, args = call_name(s)
            if fn in ("expr_delete", "free") and len(args) == 1:
                deleted.add(path(args[0], alias))
                continue
            raise Tie("%s: unexpected call %s" % (where, fn))
        raise Tie("%s: unexpected statement %s" % (where, k))
    if special == "string":
        return dict(special="string")
    if special == "copy_enumtype":
        if reskind != "enumtype" or res is not None:
            raise Tie("%s: enumtype copy with another result" % where)
        return dict(guard=None, reskind="enumtype", resmember="idx", expr=("a", "idx"), special=None)
    if reskind is None or res is None:
        raise Tie("%s: clause does not set the result kind and value" % where)
    for o, base in opnd_paths.items():
        if base not in deleted:
            raise Tie("%s: operand %s is not released" % (where, o))
    return dict(guard=guard, reskind=reskind, resmember=MEMBER_TY[res[0]], expr=res[1], special=None)

def lean_fexpr(e):
    # operand reads of the enumerator index are int reads of an `enumtype` operand
    if e[0] in ("a", "b") and e[1] == "idx":
        return "(.op%s .int)" % e[0].upper()
    if e[0] in ("a", "b", "lit"):
        return lean_cexpr(e)
    if e[0] == "un":
        return "(.un .%s .%s %s)" % (e[1], e[2], lean_fexpr(e[3]))
    if e[0] == "bin":
        return "(.bin .%s .%s %s %s)" % (e[1], e[2], lean_fexpr(e[3]), lean_fexpr(e[4]))
    if e[0] == "cast":
        return "(.cast .%s .%s %s)" % (e[1], e[2], lean_fexpr(e[3]))
    raise Tie("internal")

def reads(e, acc):
    if e[0] in ("a", "b"):
        acc.append((e[0], e[1]))
    elif e[0] == "un":
        reads(e[3], acc)
    elif e[0] == "bin":
        reads(e[3], acc); reads(e[4], acc)
    elif e[0] == "cast":
        reads(e[3], acc)
    return acc

def fold_function(file, fname, body, unary, conv=False):
    """rows of one operator folder"""
    W = "%s:%s" % (file, fname)
    st = kids(body)
    rows = []
    seen_chain = False
    opnd = {"a": "value->left"} if unary else {"a": "value->left", "b": "value->right"}
    if conv:
        opnd = {"a": "value->conv.expr_value"}
    rec_fn = "expr_enumred" if "enumred" in fname else "expr_constred"
    for s in st:
        k = s.get("kind")
        if k == "CallExpr":
            fn, args = call_name(s)
            if fn == rec_fn and path(args[0]) in opnd.values():
                continue
            raise Tie("%s: unexpected call %s" % (W, fn))
        if k == "ReturnStmt":
            continue
        if k == "IfStmt":
            if seen_chain:
                raise Tie("%s: more than one clause chain" % W)
            seen_chain = True
            chain, els = if_chain(s)
            if els is not None:
                raise Tie("%s: clause chain has a final else" % W)
            for ci, (c, b) in enumerate(chain):
                w = "%s clause %d" % (W, ci + 1)
                kinds = fold_clause(w, c, b, opnd)
                if conv:
                    sub = [x for x in kids(b)]
                    if len(sub) != 1 or sub[0].get("kind") != "IfStmt":
                        raise Tie("%s: conversion clause is not a chain on value->conv.type" % w)
                    ch2, e2 = if_chain(sub[0])
                    if e2 is not None:
                        raise Tie("%s: conversion chain has an else" % w)
                    for c2, b2 in ch2:
                        a2 = cond_atoms(c2)
                        if a2[0] != "eq" or a2[1] != "value->conv.type":
                            raise Tie("%s: inner condition is not `value->conv.type == CONV_x`" % w)
                        r = fold_body(w + " " + a2[2], b2, opnd, kinds)
                        r.update(kinds=kinds, conv=a2[2])
                        rows.append(r)
                else:
                    r = fold_body(w, b, opnd, kinds)
                    r.update(kinds=kinds, conv=None)
                    rows.append(r)
            continue
        raise Tie("%s: unexpected statement %s" % (W, k))
    if not seen_chain:
        raise Tie("%s: no clause chain" % W)
    return rows

def dispatch_switch(W, body, on_path, suffix):
    """switch (value->type) { case EXPR_X: expr_x_suffix(value, ...); break; } -> {EXPR_X: fn}"""
    sw = [s for s in kids(body) if s.get("kind") == "SwitchStmt"]
    if len(sw) != 1:
        raise Tie("%s: expected one switch" % W)
    c = kids(sw[0])
    if path(strip_enumcast(c[0])) != on_path:
        raise Tie("%s: switch is not on %s" % (W, on_path))
    res, pending = {}, []
    def visit(n):
        nonlocal pending
        k = n.get("kind")
        if k == "CaseStmt":
            cc = kids(n)
            pending.append(path(strip_enumcast(cc[0])))
            visit(cc[-1])
        elif k == "DefaultStmt":
            pending = []
            for x in kids(n):
                visit(x)
        elif k == "CallExpr":
            fn, _ = call_name(n)
            if fn != W.split(":")[-1]:      # not the dispatcher's own recursion on a sub-expression
                for p in pending:
                    res.setdefault(p, fn)
        elif k == "BreakStmt":
            pending = []
        elif k in ("CompoundStmt",):
            for x in kids(n):
                visit(x)
        else:
            pass
    for x in kids(c[-1]):
        visit(x)
    return res

def gen_constred(src):
    stats = {}
    docs = clang_ast(src, "front/constred.c", "_constred")
    fs = functions(docs)
    disp = dispatch_switch("front/constred.c:expr_constred", fs["expr_constred"], "value->type", "_constred")
    docs2 = clang_ast(src, "front/enumred.c", "_enumred")
    fs2 = functions(docs2)
    disp2 = dispatch_switch("front/enumred.c:expr_enumred", fs2["expr_enumred"], "value->type", "_enumred")
    rows = []
    def add(file, fs_, disp_, suffix, table):
        for op in SRCOPS:
            ex = "EXPR_" + op.upper()
            fn = disp_.get(ex)
            if fn is None:
                raise Tie("%s: %s is not dispatched" % (file, ex))
            if fn not in fs_:
                raise Tie("%s: %s dispatches to %s which has no body" % (file, ex, fn))
            if suffix == "_enumred" and fn != "expr_%s_enumred" % op:
                # enumred rejects unsupported operators in the switch itself
                continue
            unary = op in ("neg", "not", "bin_not", "sup")
            for r in fold_function(file, fn, fs_[fn], unary):
                r.update(op=op, table=table, fn=fn)
                rows.append(r)
    add("front/constred.c", fs, disp, "_constred", "constred")
    fnc = disp.get("EXPR_CONV")
    if fnc is None or fnc not in fs:
        raise Tie("front/constred.c: EXPR_CONV is not dispatched")
    for r in fold_function("front/constred.c", fnc, fs[fnc], True, conv=True):
        r.update(op="conv", table="constred", fn=fnc)
        rows.append(r)
    # enumred: operator folders that exist there
    for op in SRCOPS:
        ex = "EXPR_" + op.upper()
        fn = disp2.get(ex)
        if fn is None or not fn.startswith("expr_") or not fn.endswith("_enumred") or fn not in fs2:
            continue
        if fn in ("expr_enumred",):
            continue
        unary = op in ("neg", "not", "bin_not", "sup")
        try:
            rs = fold_function("front/enumred.c", fn, fs2[fn], unary)
        except Tie as e:
            raise
        for r in rs:
            r.update(op=op, table="enumred", fn=fn)
            rows.append(r)
    out = ["/- GENERATED by gen/numtab.py from front/constred.c, front/enumred.c — do not edit -/",
           "import NeverModel.Model.CExpr", "namespace Never.Gen.ConstRed", "open Never.Num Never.CExpr", ""]
    out.append("def rows : List FoldRow := [")
    items, nstr = [], 0
    for r in rows:
        if r.get("special") == "string":
            nstr += 1
            continue
        kb = r["kinds"].get("b")
        conv = lean_conv(r["conv"])
        g = "none" if r["guard"] is None else "(some %s)" % lean_fexpr(r["guard"])
        items.append('  { table := .%s, op := .%s, conv := %s, kindA := .%s, kindB := %s, guard := %s,\n    resKind := .%s, resMember := .%s, expr := %s }'
                     % (r["table"], r["op"], conv, r["kinds"]["a"], opt(kb), g, r["reskind"],
                        "int" if r["resmember"] == "idx" else r["resmember"], lean_fexpr(r["expr"])))
    out.append(",\n".join(items) + " ]")
    out.append("")
    out.append("/-- expr_constred dispatch: source operator -> folder function -/")
    out.append("def dispatch : List (String × String) := [")
    out.append(",\n".join('  ("%s", "%s")' % (k, v) for k, v in sorted(disp.items()) if v) + " ]")
    out.append("")
    out.append("end Never.Gen.ConstRed")
    stats.update(fold_rows=len(items), fold_string_rows=nstr)
    return "\n".join(out) + "\n", stats

# ------------------------------------------------------------------ front/typecheck.c matrices and typing rules

COMB = {"COMB_TYPE_BOOL": "bool", "COMB_TYPE_INT": "int", "COMB_TYPE_LONG": "long", "COMB_TYPE_FLOAT": "float",
        "COMB_TYPE_DOUBLE": "double", "COMB_TYPE_CHAR": "char", "COMB_TYPE_ENUMTYPE": "enumtype"}
SCALARS = ["bool", "int", "long", "float", "double", "char", "enumtype"]
COMB_OF = dict((v, k) for k, v in COMB.items())
CONVS = ["CONV_INT_TO_LONG", "CONV_INT_TO_FLOAT", "CONV_INT_TO_DOUBLE", "CONV_LONG_TO_INT", "CONV_LONG_TO_FLOAT", "CONV_LONG_TO_DOUBLE",
         "CONV_FLOAT_TO_INT", "CONV_FLOAT_TO_LONG", "CONV_FLOAT_TO_DOUBLE", "CONV_DOUBLE_TO_INT", "CONV_DOUBLE_TO_LONG", "CONV_DOUBLE_TO_FLOAT"]

def conv_pair(c):
    m = re.match(r"CONV_(INT|LONG|FLOAT|DOUBLE)_TO_(INT|LONG|FLOAT|DOUBLE)$", c)
    if not m:
        raise Tie("conversion %s not modelled" % c)
    return m.group(1).lower(), m.group(2).lower()

def lean_conv(c):
    return "none" if c is None else "(some (.%s, .%s))" % conv_pair(c)

class Effects:
    """effects of a clause body of a typing function on (value, left, right)"""
    def __init__(self):
        self.conv = {}      # 'l'/'r' -> CONV_x
        self.comb = None    # COMB_TYPE_x assigned to value->comb.comb
        self.enumconv = []  # operands passed to expr_conv_enumerator
        self.fail = False
        self.ret = None

def body_effects(W, body, names, call_eval=None):
    """names: {'value': path of result node, 'l': path of left operand, 'r': path of right operand}"""
    ef = Effects()
    for s in (kids(body) if body.get("kind") == "CompoundStmt" else [body]):
        k = s.get("kind")
        if k == "CallExpr":
            fn, args = call_name(s)
            if fn == "expr_conv":
                p = path(args[0])
                c = path(strip_enumcast(args[1]))
                side = "l" if p == names["l"] else "r" if p == names["r"] else None
                if side is None:
                    raise Tie("%s: expr_conv applied to %s" % (W, p))
                if side in ef.conv:
                    raise Tie("%s: operand converted twice" % W)
                ef.conv[side] = c
                continue
            if fn == "expr_conv_enumerator":
                p = path(args[0])
                side = "l" if p == names["l"] else "r" if p == names["r"] else None
                if side is None:
                    raise Tie("%s: expr_conv_enumerator applied to %s" % (W, p))
                ef.enumconv.append(side)
                continue
            if fn in ("print_warning_msg",):
                continue
            if fn == "print_error_msg":
                ef.fail = True
                continue
            raise Tie("%s: unexpected call %s in clause body" % (W, fn))
        if k == "BinaryOperator" and s.get("opcode") == "=":
            l, r = kids(s)
            pl = path(l)
            if pl == names["value"] + "->comb.comb":
                ef.comb = path(strip_enumcast(r))
                continue
            if pl == "conv":
                v = strip(r)
                if v.get("kind") == "IntegerLiteral":
                    ef.ret = int(v["value"])
                    continue
            if pl == "*result":
                ef.fail = True
                continue
            if pl is not None and pl.startswith(names["value"] + "->comb."):
                ef.other = True
                continue
            raise Tie("%s: unexpected assignment to %s" % (W, pl))
        if k == "ReturnStmt":
            v = strip_enumcast(kids(s)[0]) if kids(s) else None
            if v is not None and v.get("kind") == "IntegerLiteral":
                ef.ret = int(v["value"])
            elif v is not None and v.get("kind") == "DeclRefExpr":
                ef.ret = v["referencedDecl"]["name"]
            continue
        if k == "NullStmt":
            continue
        raise Tie("%s: unexpected statement %s in clause body" % (W, k))
    return ef

def matrix_function(W, body, names):
    """expr_conv_basic_type / expr_conv_ass_type / expr_conv_enumtype:
    nested chains on left comb then right comb -> cells {(l, r): Effects}; everything else: not converted"""
    cells = {}
    top = [s for s in kids(body) if s.get("kind") == "IfStmt"]
    if len(top) != 1:
        raise Tie("%s: expected one if-chain" % W)
    for s in kids(body):
        k = s.get("kind")
        if k == "DeclStmt":
            v = kids(s)[0]
            if v.get("name") == "conv" and strip(kids(v)[0]).get("value") == "1":
                continue
            raise Tie("%s: unexpected local" % W)
        if k == "ReturnStmt":
            if path(kids(s)[0]) != "conv":
                raise Tie("%s: does not return conv" % W)
            continue
        if k == "IfStmt":
            continue
        raise Tie("%s: unexpected statement %s" % (W, k))
    chain, els = if_chain(top[0])
    def noconv(b, w):
        ef = body_effects(w, b, names)
        if ef.ret != 0 or ef.conv or ef.comb:
            raise Tie("%s: final else does not just set conv = 0" % w)
    if els is None:
        raise Tie("%s: outer chain has no else" % W)
    noconv(els, W + " else")
    for c, b in chain:
        a = cond_atoms(c)
        if a[0] != "eq" or a[1] != names["l"] + "->comb.comb":
            raise Tie("%s: outer condition is not `left->comb.comb == X`" % W)
        lc = a[2]
        inner = [x for x in kids(b)]
        if len(inner) != 1 or inner[0].get("kind") != "IfStmt":
            raise Tie("%s: clause for %s is not an inner chain" % (W, lc))
        ch2, e2 = if_chain(inner[0])
        if e2 is None:
            raise Tie("%s: inner chain for %s has no else" % (W, lc))
        noconv(e2, W + " inner else")
        for c2, b2 in ch2:
            a2 = cond_atoms(c2)
            if a2[0] != "eq" or a2[1] != names["r"] + "->comb.comb":
                raise Tie("%s: inner condition is not `right->comb.comb == X`" % W)
            key = (lc, a2[2])
            if key in cells:
                continue   # first clause wins
            ef = body_effects("%s cell (%s,%s)" % (W, lc, a2[2]), b2, names)
            if ef.comb is None:
                raise Tie("%s: cell %s does not set the combined type" % (W, key))
            cells[key] = ef
    return cells

def param_matrix(W, body):
    """param_expr_cmp: flat chain `param_value->type == PARAM_X && expr_value->comb.comb == COMB_Y` -> conv"""
    top = [s for s in kids(body) if s.get("kind") == "IfStmt"]
    cells = {}
    for t in top:
        chain, els = if_chain(t)
        for c, b in chain:
            a = cond_atoms(c)
            if a[0] == "and" and a[1][0] == "eq" and a[2][0] == "eq" and a[1][1] == "param_value->type" and a[2][1] == "expr_value->comb.comb":
                pt, cb = a[1][2], a[2][2]
                if cb not in COMB or pt not in ("PARAM_BOOL", "PARAM_INT", "PARAM_LONG", "PARAM_FLOAT", "PARAM_DOUBLE", "PARAM_CHAR"):
                    continue
                ef = body_effects("%s cell (%s,%s)" % (W, pt, cb), b, {"value": "?", "l": "?", "r": "expr_value"})
                if (pt, cb) not in cells:
                    cells[(pt, cb)] = ef
    return cells

def gen_convmatrix(src):
    docs = clang_ast(src, "front/typecheck.c", "expr_conv_")
    fs = functions(docs)
    names = {"value": "value", "l": "expr_left", "r": "expr_right"}
    mats = {}
    for fn in ("expr_conv_basic_type", "expr_conv_ass_type", "expr_conv_enumtype"):
        if fn not in fs:
            raise Tie("front/typecheck.c: %s not found" % fn)
        mats[fn] = matrix_function("front/typecheck.c:" + fn, fs[fn], names)
    # expr_conv_enumerator: ITEM -> no conversion
    en = fs.get("expr_conv_enumerator")
    if en is None:
        raise Tie("expr_conv_enumerator not found")
    sw = [s for s in kids(en) if s.get("kind") == "SwitchStmt"]
    if len(sw) != 1 or path(strip_enumcast(kids(sw[0])[0])) != "value->comb.comb_enumtype->type":
        raise Tie("expr_conv_enumerator: unexpected shape")
    item_ok = False
    for cs in kids(kids(sw[0])[-1]):
        if cs.get("kind") == "CaseStmt" and path(strip_enumcast(kids(cs)[0])) == "ENUMTYPE_TYPE_ITEM":
            b = kids(cs)[-1]
            if b.get("kind") == "ReturnStmt":
                item_ok = True
    if not item_ok:
        raise Tie("expr_conv_enumerator: the ENUMTYPE_TYPE_ITEM case is not `return` without conversion")
    pdocs = clang_ast(src, "front/typecheck.c", "param_expr_cmp")
    pfs = functions(pdocs)
    if "param_expr_cmp" not in pfs:
        raise Tie("param_expr_cmp not found")
    pm = param_matrix("front/typecheck.c:param_expr_cmp", pfs["param_expr_cmp"])
    cdocs = clang_ast(src, "front/expr.c", "conv_to_comb_type")
    cfs = functions(cdocs)
    c2c = {}
    sw = [s for s in kids(cfs["conv_to_comb_type"]) if s.get("kind") == "SwitchStmt"][0]
    for cs in kids(kids(sw)[-1]):
        if cs.get("kind") == "CaseStmt":
            cc = kids(cs)
            nm = path(strip_enumcast(cc[0]))
            rt = cc[-1]
            if rt.get("kind") == "ReturnStmt":
                c2c[nm] = path(strip_enumcast(kids(rt)[0]))
    def cell_lines(cells, enumtype=False):
        items = []
        for (l, r), ef in sorted(cells.items()):
            if l not in COMB or r not in COMB:
                raise Tie("matrix cell (%s,%s) outside the scalar types" % (l, r))
            if ef.comb not in COMB:
                raise Tie("matrix cell (%s,%s) sets %s" % (l, r, ef.comb))
            items.append("  { l := .%s, r := .%s, convL := %s, convR := %s, res := .%s, enumL := %s, enumR := %s }"
                         % (COMB[l], COMB[r], lean_conv(ef.conv.get("l")), lean_conv(ef.conv.get("r")), COMB[ef.comb],
                            "true" if "l" in ef.enumconv else "false", "true" if "r" in ef.enumconv else "false"))
        return ",\n".join(items)
    out = ["/- GENERATED by gen/numtab.py from front/typecheck.c, front/expr.c — do not edit -/",
           "import NeverModel.Model.CExpr", "namespace Never.Gen.ConvMatrix", "open Never.Num Never.CExpr", ""]
    out.append("/-- expr_conv_basic_type: every (left, right) pair for which it answers `converted` -/")
    out.append("def basic : List Cell := [\n" + cell_lines(mats["expr_conv_basic_type"]) + " ]\n")
    out.append("/-- expr_conv_ass_type -/")
    out.append("def ass : List Cell := [\n" + cell_lines(mats["expr_conv_ass_type"]) + " ]\n")
    out.append("/-- expr_conv_enumtype (an ITEM enumerator needs no conversion: expr_conv_enumerator) -/")
    out.append("def enumtype : List Cell := [\n" + cell_lines(mats["expr_conv_enumtype"]) + " ]\n")
    items = []
    for (pt, cb), ef in sorted(pm.items()):
        items.append("  { l := .%s, r := .%s, convL := none, convR := %s, res := .%s, enumL := false, enumR := false }"
                     % (pt[len("PARAM_"):].lower(), COMB[cb], lean_conv(ef.conv.get("r")), pt[len("PARAM_"):].lower()))
    out.append("/-- param_expr_cmp (argument / return / typed binding): declared type l, expression type r -/")
    out.append("def param : List Cell := [\n" + ",\n".join(items) + " ]\n")
    items = []
    for c in CONVS:
        if c not in c2c or c2c[c] not in COMB:
            raise Tie("conv_to_comb_type: no scalar result for %s" % c)
        items.append("  ((.%s, .%s), .%s)" % (conv_pair(c) + (COMB[c2c[c]],)))
    out.append("/-- conv_to_comb_type: the combined type an inserted conversion node carries -/")
    out.append("def convComb : List ((NTy × NTy) × Comb) := [\n" + ",\n".join(items) + " ]\n")
    out.append("end Never.Gen.ConvMatrix")
    stats = dict(basic_cells=len(mats["expr_conv_basic_type"]), ass_cells=len(mats["expr_conv_ass_type"]),
                 enumtype_cells=len(mats["expr_conv_enumtype"]), param_cells=len(pm))
    return "\n".join(out) + "\n", stats, mats, c2c

# ------------------------------------------------------------------ typing rules per operator + emitter selection

TC_FUNCS = {"neg": "EXPR_NEG", "add": "EXPR_ADD", "sub": "EXPR_SUB", "mul": "EXPR_MUL", "div": "EXPR_DIV", "mod": "EXPR_MOD",
            "lt": "EXPR_LT", "gt": "EXPR_GT", "lte": "EXPR_LTE", "gte": "EXPR_GTE", "eq": "EXPR_EQ", "neq": "EXPR_NEQ",
            "and": "EXPR_AND", "or": "EXPR_OR", "not": "EXPR_NOT", "bin_not": "EXPR_BIN_NOT", "bin_and": "EXPR_BIN_AND",
            "bin_or": "EXPR_BIN_OR", "bin_xor": "EXPR_BIN_XOR", "bin_shl": "EXPR_BIN_SHL", "bin_shr": "EXPR_BIN_SHR", "ass": "EXPR_ASS"}
UNARY = ("neg", "not", "bin_not")

def typing_rule(W, body, mats, lc, rc):
    """evaluate the typing function of an operator for operand combined types (lc, rc) (COMB_TYPE_x names; rc None
    for unary).  Model assumptions: the left operand of an assignment is a variable identifier; two enum operands are
    ITEM enumerators of the same enum.  -> None (rejected) | dict(convL, convR, comb)"""
    names = {"value": "value", "l": "value->left", "r": "value->right"}
    state = {}
    def call_matrix(mat):
        def f(args):
            if args != ["value", "value->left", "value->right"]:
                return None
            cell = mats[mat].get((lc, rc))
            if cell is None:
                return False
            state["pending"] = cell
            return True
        return f
    env = {"value->left->comb.comb": lc, "value->left->type": "EXPR_ID", "value->left->comb.comb_const": "COMB_CONST_TYPE_VAR",
           "value->left->comb.comb_enumtype->type": "ENUMTYPE_TYPE_ITEM", "value->right->comb.comb_enumtype->type": "ENUMTYPE_TYPE_ITEM",
           "call:expr_conv_basic_type": call_matrix("expr_conv_basic_type"), "call:expr_conv_enumtype": call_matrix("expr_conv_enumtype"),
           "call:expr_conv_ass_type": call_matrix("expr_conv_ass_type"), "call:expr_conv_string_type": lambda a: False,
           "eqpath:comb.comb_enumtype": True}
    if rc is not None:
        env["value->right->comb.comb"] = rc
    res = dict(convL=None, convR=None, comb=None)
    rejected = False
    def apply(ef, pend):
        nonlocal rejected
        if ef.fail:
            rejected = True
            return
        if pend is not None:
            res["convL"], res["convR"], res["comb"] = pend.conv.get("l"), pend.conv.get("r"), pend.comb
        if "l" in ef.conv:
            res["convL"] = ef.conv["l"]
        if "r" in ef.conv:
            res["convR"] = ef.conv["r"]
        if ef.comb is not None:
            res["comb"] = ef.comb
    for s in kids(body):
        k = s.get("kind")
        if k == "CallExpr":
            fn, args = call_name(s)
            if fn == "expr_check_type":
                continue
            raise Tie("%s: unexpected call %s" % (W, fn))
        if k == "ReturnStmt":
            continue
        if k == "BinaryOperator" and s.get("opcode") == "=":
            pl = path(kids(s)[0])
            if pl == "value->comb.comb_const":
                continue
            if pl == "value->comb.comb":
                res["comb"] = path(strip_enumcast(kids(s)[1]))
                continue
            raise Tie("%s: unexpected assignment to %s" % (W, pl))
        if k == "IfStmt":
            chain, els = if_chain(s)
            fired, pend = None, None
            for c, b in chain:
                state.pop("pending", None)
                v = _ev_relaxed(cond_atoms(c), env)
                if v is None:
                    raise Tie("%s: cannot decide clause condition %r for (%s,%s)" % (W, cond_atoms(c), lc, rc))
                if v:
                    fired, pend = b, state.pop("pending", None)
                    break
            if fired is None:
                fired = els
            if fired is None:
                continue
            if fired.get("kind") == "IfStmt":
                raise Tie("%s: nested chain" % W)
            apply(body_effects(W, fired, names), pend)
            continue
        raise Tie("%s: unexpected statement %s" % (W, k))
    if rejected or res["comb"] is None or res["comb"] == "COMB_TYPE_ERR":
        return None
    return res

def _ev_relaxed(a, env):
    """three-valued evaluation; atoms about things outside the scalar model (array element types, record identity)
    are unknown: a conjunction with a False conjunct is still False"""
    t = a[0]
    if t == "and":
        x, y = _ev_relaxed(a[1], env), _ev_relaxed(a[2], env)
        if x is False or y is False:
            return False
        return True if (x is True and y is True) else None
    if t == "or":
        x, y = _ev_relaxed(a[1], env), _ev_relaxed(a[2], env)
        if x is True or y is True:
            return True
        return False if (x is False and y is False) else None
    if t == "eqpath":
        for k, v in env.items():
            if k.startswith("eqpath:") and a[1].endswith(k[7:]) and a[2].endswith(k[7:]):
                return v
        return None
    if t == "other":
        return None
    return ev3(a, env)

def emit_rule(W, body, vc, lc, rc):
    """opcode chosen by expr_<op>_emit for (value comb, left comb, right comb) -> opcode name | None (no clause: EMIT_FAIL)"""
    chains = [s for s in kids(body) if s.get("kind") == "IfStmt"]
    if len(chains) != 1:
        raise Tie("%s: expected one selection chain" % W)
    chain, els = if_chain(chains[0])
    env = {"value->comb.comb": vc, "value->left->comb.comb": lc}
    if rc is not None:
        env["value->right->comb.comb"] = rc
    for c, b in chain:
        a = cond_atoms(c)
        v = _ev_relaxed(a, env)
        if v is None:
            raise Tie("%s: cannot decide selection condition %r for (%s,%s,%s)" % (W, a, vc, lc, rc))
        if not v:
            continue
        return _emit_body(W, b)
    return None

def _emit_body(W, b):
    opc = None
    for s in kids(b):
        k = s.get("kind")
        if k == "BinaryOperator" and s.get("opcode") == "=" and path(kids(s)[0]) == "bc.type":
            opc = path(strip_enumcast(kids(s)[1]))
            continue
        if k == "CallExpr" and call_name(s)[0] == "bytecode_add":
            continue
        if k == "SwitchStmt":
            sp = path(strip_enumcast(kids(s)[0]))
            if sp not in ("value->left->comb.comb_enumtype->type", "value->comb.comb_enumtype->type"):
                raise Tie("%s: switch on %s in selection clause" % (W, sp))
            for cs in kids(kids(s)[-1]):
                if cs.get("kind") == "CaseStmt" and path(strip_enumcast(kids(cs)[0])) == "ENUMTYPE_TYPE_ITEM":
                    x = kids(cs)[-1]
                    if x.get("kind") == "BinaryOperator" and path(kids(x)[0]) == "bc.type":
                        opc = path(strip_enumcast(kids(x)[1]))
            continue
        raise Tie("%s: unexpected statement %s in selection clause" % (W, k))
    if opc is None:
        raise Tie("%s: selection clause sets no opcode" % W)
    return opc

def conv_emit(W, body):
    """expr_conv_emit: (operand comb, CONV) -> opcode"""
    chains = [s for s in kids(body) if s.get("kind") == "IfStmt"]
    res = {}
    chain, els = if_chain(chains[0])
    for c, b in chain:
        a = cond_atoms(c)
        if a[0] != "eq" or a[1] != "value->conv.expr_value->comb.comb":
            raise Tie("%s: outer condition is not on the operand's combined type" % W)
        inner = [x for x in kids(b) if x.get("kind") == "IfStmt"]
        if len(inner) != 1:
            raise Tie("%s: inner chain missing" % W)
        ch2, e2 = if_chain(inner[0])
        for c2, b2 in ch2:
            a2 = cond_atoms(c2)
            if a2[0] != "eq" or a2[1] != "value->conv.type":
                raise Tie("%s: inner condition is not on value->conv.type" % W)
            res.setdefault((a[2], a2[2]), _emit_body(W, b2))
    return res

def gen_emitselect(src, mats, c2c, bt):
    tdocs = clang_ast(src, "front/typecheck.c", "_check_type")
    tfs = functions(tdocs)
    tdisp = dispatch_switch("front/typecheck.c:expr_check_type", tfs["expr_check_type"], "value->type", "_check_type")
    edocs = clang_ast(src, "front/emit.c", "_emit")
    efs = functions(edocs)
    edisp = dispatch_switch("front/emit.c:expr_emit", efs["expr_emit"], "value->type", "_emit")
    rules = []
    for op, ex in TC_FUNCS.items():
        tf, ef = tdisp.get(ex), edisp.get(ex)
        if tf is None or tf not in tfs:
            raise Tie("typecheck: %s is not dispatched" % ex)
        if ef is None or ef not in efs:
            raise Tie("emit: %s is not dispatched" % ex)
        for lc in SCALARS:
            for rc in ([None] if op in UNARY else SCALARS):
                L, R = COMB_OF[lc], (COMB_OF[rc] if rc else None)
                tr = typing_rule("front/typecheck.c:%s" % tf, tfs[tf], mats, L, R)
                if tr is None or tr["comb"] is None:
                    continue
                # operand types the emitter sees: conversion nodes carry conv_to_comb_type
                l2 = c2c[tr["convL"]] if tr["convL"] else L
                r2 = (c2c[tr["convR"]] if tr["convR"] else R) if R else None
                if op in ("and", "or"):
                    opc = "JUMPZ"   # short-circuit code, no arithmetic handler
                else:
                    opc = emit_rule("front/emit.c:%s" % ef, efs[ef], tr["comb"], l2, r2)
                for x in (tr["comb"], l2) + ((r2,) if r2 else ()):
                    if x not in COMB:
                        raise Tie("typing of %s at (%s,%s) yields non-scalar %s" % (op, lc, rc, x))
                rules.append(dict(op=op, l=lc, r=rc, convL=tr["convL"], convR=tr["convR"], comb=COMB[tr["comb"]],
                                  l2=COMB[l2], r2=COMB[r2] if r2 else None, opcode=opc))
    cf = edisp.get("EXPR_CONV")
    ce = conv_emit("front/emit.c:" + cf, efs[cf])
    out = ["/- GENERATED by gen/numtab.py from front/typecheck.c (expr_*_check_type), front/emit.c (expr_*_emit) — do not edit -/",
           "import NeverModel.Model.CExpr", "namespace Never.Gen.EmitSelect", "open Never.Num Never.CExpr", ""]
    out.append("/-- for every source operator and every pair of scalar operand types the typechecker admits:\n"
               "    conversions inserted, combined type of the node, operand types as the emitter sees them, opcode emitted\n"
               "    (`none` = the emitter has no clause: EMIT_FAIL / assert(0)) -/")
    out.append("def rules : List Rule := [")
    items = []
    for r in rules:
        if r["opcode"] is not None and r["opcode"] != "JUMPZ" and r["opcode"] not in bt:
            raise Tie("emitter selects unknown opcode %s" % r["opcode"])
        items.append('  { op := .%s, l := .%s, r := %s, convL := %s, convR := %s, comb := .%s, l2 := .%s, r2 := %s, opcode := %s }'
                     % (r["op"], r["l"], opt(r["r"]), lean_conv(r["convL"]), lean_conv(r["convR"]), r["comb"], r["l2"], opt(r["r2"]),
                        "none" if r["opcode"] is None else '(some (%d, "%s"))' % (bt.get(r["opcode"], 0), r["opcode"])))
    out.append(",\n".join(items) + " ]\n")
    out.append("/-- expr_conv_emit: opcode per (operand combined type, conversion) -/")
    out.append("def convOpcode : List ((NTy × NTy) × Nat × String) := [")
    items = []
    for c in CONVS:
        s, d = conv_pair(c)
        opc = ce.get((COMB_OF[s], c))
        if opc is None:
            raise Tie("expr_conv_emit has no opcode for %s" % c)
        if opc not in bt:
            raise Tie("expr_conv_emit selects unknown opcode %s" % opc)
        items.append('  ((.%s, .%s), %d, "%s")' % (s, d, bt[opc], opc))
    out.append(",\n".join(items) + " ]\n")
    out.append("end Never.Gen.EmitSelect")
    return "\n".join(out) + "\n", dict(rules=len(rules), rules_without_opcode=sum(1 for r in rules if r["opcode"] is None))

# ------------------------------------------------------------------ entry points

FILES = ["VmArith", "ConstRed", "ConvMatrix", "EmitSelect"]

def generate(src):
    stats = {}
    vm, st, bt = gen_vmarith(src); stats.update(st)
    cr, st = gen_constred(src); stats.update(st)
    cm, st, mats, c2c = gen_convmatrix(src); stats.update(st)
    es, st = gen_emitselect(src, mats, c2c, bt); stats.update(st)
    return {"VmArith": vm, "ConstRed": cr, "ConvMatrix": cm, "EmitSelect": es}, stats

def write(src, gendir):
    texts, stats = generate(src)
    os.makedirs(gendir, exist_ok=True)
    changed = []
    for name, t in texts.items():
        p = os.path.join(gendir, name + ".lean")
        old = open(p).read() if os.path.exists(p) else None
        if old != t:
            with open(p + ".tmp", "w") as fh:
                fh.write(t)
            os.replace(p + ".tmp", p)
            changed.append(name)
    return changed, stats

if __name__ == "__main__":
    src = sys.argv[1]
    out = sys.argv[2] if len(sys.argv) > 2 else None
    try:
        if out:
            print(write(src, out))
        else:
            texts, stats = generate(src)
            for k, v in texts.items():
                print("=" * 30, k); print(v)
            print(stats)
    except Tie as e:
        print("BROKEN TIE:", e); sys.exit(3)
