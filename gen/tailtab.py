#!/usr/bin/env python3
"""Translator (T) for C13/C02: the tail-call marker front/tailrec.c as a table.

From clang-14's typed JSON AST of front/tailrec.c this walks `expr_tailrec` (one row group per `case EXPR_*`), the
helpers it calls (match guards, sequence lists, if-let, list comprehensions, arrays, bindings, catch clauses),
`func_tailrec` / `func_tailrec_native` and `never_tailrec` SYMBOLICALLY: the walker carries the value of the
tail-position flag `op` (the caller's own `op`, or the constants TAILREC_OP_SKIP / TAILREC_OP_ADD), the designator of
the AST child that is being visited (member path from the node, `[]` = every element of a list, `[head]` = the last
element of a sequence list, `[!head]` = all the others) and the symbol table that is handed down.  Every visit of a child
(`expr_tailrec(...)`; `func_tailrec(...)` = a fresh function context) becomes a row

      construct | qualifiers (sub-switch labels on the way) | child designator | op / skip / add / fresh | scope

and the retagging site (`value->type = EXPR_LAST_CALL`) and the rule of `expr_id_tailrec` (the path condition of its only
`return 1`) are rendered as text.  Output: lean/NeverModel/Gen/TailTab.lean.

An unrecognised statement / expression shape raises `Unrecognised` (a broken tie) — nothing is ever skipped."""
import os, sys, json, subprocess

HERE = os.path.dirname(os.path.abspath(__file__))
OUT_DIR = os.path.join(os.path.dirname(HERE), "lean", "NeverModel", "Gen")

class Unrecognised(Exception):
    pass

# entries that start a context of their own (they take no tail-position flag)
FRESH = ("func_tailrec", "use_list_tailrec", "use_tailrec", "module_decl_tailrec", "never_tailrec")

def dump(src):
    f = os.path.join(src, "front", "tailrec.c")
    p = subprocess.run(["clang-14", "-fsyntax-only", "-w", "-Xclang", "-ast-dump=json"] +
                       ["-I" + os.path.join(src, d) for d in ("include", "front", "back", ".")] + [f],
                       stdout=subprocess.PIPE, stderr=subprocess.PIPE)
    if p.returncode != 0 or not p.stdout:
        raise Unrecognised("clang-14 failed on %s: %s" % (f, p.stderr.decode()[-300:]))
    return json.loads(p.stdout)

# ------------------------------------------------------------------ small helpers over clang's JSON

TRANSPARENT = ("ImplicitCastExpr", "ParenExpr", "ConstantExpr")

def strip(e):
    while e.get("kind") in TRANSPARENT and e.get("inner"):
        e = e["inner"][0]
    return e

def is_null(e):
    e = strip(e)
    if e.get("kind") == "CStyleCastExpr" and e.get("castKind") == "NullToPointer":
        return True
    return False

def ctext(e):
    """C text of an expression (only the shapes tailrec.c uses)"""
    k = e.get("kind")
    if k in TRANSPARENT:
        inner = ctext(e["inner"][0])
        return "(" + inner + ")" if k == "ParenExpr" and not is_null(e) else inner
    if is_null(e):
        return "NULL"
    if k == "DeclRefExpr":
        return e["referencedDecl"]["name"]
    if k == "MemberExpr":
        base, arrow = e["inner"][0], e.get("isArrow")
        if e.get("name", "") == "":
            return ctext(base)
        b0 = strip(base)
        if b0.get("kind") == "MemberExpr" and b0.get("name", "") == "":
            # member of an anonymous union/struct: the arrow is on the anonymous step
            base, arrow = b0["inner"][0], b0.get("isArrow")
        return ctext(base) + ("->" if arrow else ".") + e["name"]
    if k == "BinaryOperator":
        return "%s %s %s" % (ctext(e["inner"][0]), e["opcode"], ctext(e["inner"][1]))
    if k == "UnaryOperator":
        return e["opcode"] + ctext(e["inner"][0])
    if k == "IntegerLiteral":
        return e["value"]
    if k == "CallExpr":
        return "%s(%s)" % (ctext(e["inner"][0]), ", ".join(ctext(a) for a in e["inner"][1:]))
    raise Unrecognised("expression kind %s in a condition" % k)

def callee_name(call):
    c = strip(call["inner"][0])
    if c.get("kind") == "DeclRefExpr" and c["referencedDecl"].get("kind") == "FunctionDecl":
        return c["referencedDecl"]["name"]
    raise Unrecognised("indirect call")

def is_assert(stmt):
    """the expansion of assert(...): ((void) sizeof(...), __extension__ ({ if (c) ; else __assert_fail(...); }));
    accepted only when the single function it calls is __assert_fail"""
    if stmt.get("kind") not in ("ParenExpr", "ConditionalOperator", "CStyleCastExpr", "BinaryOperator"):
        return False
    called = []
    def go(n):
        if n.get("kind") == "CallExpr":
            c = strip(n["inner"][0])
            called.append(c.get("referencedDecl", {}).get("name"))
        for c in n.get("inner", []):
            go(c)
    go(stmt)
    return called == ["__assert_fail"]

# ------------------------------------------------------------------ symbolic values

class Path:
    """a member path from the node under visit; `lst`/`which` set when the value is a list node (iterator)"""
    def __init__(self, text, node_of=None, which=None):
        self.text, self.node_of, self.which = text, node_of, which
    def __repr__(self):
        return "Path(%r,%r,%r)" % (self.text, self.node_of, self.which)

def join(a, b):
    return b if a == "" else a + "." + b

class Walker:
    def __init__(self, tu):
        self.fns = {}
        for n in tu["inner"]:
            if n.get("kind") == "FunctionDecl" and any(c.get("kind") == "CompoundStmt" for c in n.get("inner", [])):
                loc = n.get("loc", {})
                self.fns[n["name"]] = n
        self.rows = []          # (construct, quals tuple, child, pass, scope)
        self.retags = []        # (construct, cond text, new type)
        self.visited = set()
        self.depth = 0

    # ---- expressions -> symbolic
    def sym(self, e, env):
        e = strip(e)
        k = e.get("kind")
        if is_null(e):
            return None
        if k == "DeclRefExpr":
            d = e["referencedDecl"]
            if d["kind"] in ("ParmVarDecl", "VarDecl"):
                if d["name"] not in env:
                    raise Unrecognised("use of unknown variable %s" % d["name"])
                return env[d["name"]]
            if d["kind"] == "EnumConstantDecl":
                return ("const", d["name"])
            raise Unrecognised("reference to %s %s" % (d["kind"], d.get("name")))
        if k == "MemberExpr":
            b = self.sym(e["inner"][0], env)
            nm = e.get("name", "")
            if nm == "":
                return b
            if not isinstance(b, Path):
                raise Unrecognised("member %s of a non-path value %r" % (nm, b))
            if b.node_of is not None:
                if nm == "next":
                    return b
                if nm == "value":
                    if b.which == "tail":
                        raise Unrecognised("element of list %s read outside its loop" % b.node_of)
                    return Path(b.node_of + {"all": "[]", "head": "[head]", "nothead": "[!head]"}[b.which])
                raise Unrecognised("member %s of a list node" % nm)
            if nm in ("tail", "head"):
                return Path(None, node_of=b.text, which=nm)
            return Path(join(b.text, nm))
        if k == "BinaryOperator" and e["opcode"] in ("+", "-"):
            return ("arith", ctext(e))
        if k == "IntegerLiteral":
            return ("int", e["value"])
        raise Unrecognised("argument expression of kind %s" % k)

    def opval(self, v):
        if isinstance(v, tuple) and v[0] == "const" and v[1] in ("TAILREC_OP_SKIP", "TAILREC_OP_ADD"):
            return "skip" if v[1] == "TAILREC_OP_SKIP" else "add"
        if v in ("op", "skip", "add"):
            return v
        raise Unrecognised("value %r passed as the tail-position flag" % (v,))

    # ---- conditions
    def classify_cond(self, c, env):
        """-> ('guard', [kind labels], [null-tested member paths])  a conjunction of `->type == LABEL` tests (a disjunction of labels
                 counts as one test) and `path != NULL` tests;  no labels and no else branch = a transparent null test
              | ('retag', text) | ('other', text)"""
        c0 = strip(c)
        k = c0.get("kind")
        if k == "BinaryOperator" and c0["opcode"] == "&&":
            a, b = self.classify_cond(c0["inner"][0], env), self.classify_cond(c0["inner"][1], env)
            if a[0] == "guard" and b[0] == "guard":
                return ("guard", a[1] + b[1], a[2] + b[2])
            if b[0] == "retag" or a[0] == "retag":
                return ("retag", ctext(c0))
            return ("other", ctext(c0))
        if k == "BinaryOperator" and c0["opcode"] == "||":
            a, b = self.classify_cond(c0["inner"][0], env), self.classify_cond(c0["inner"][1], env)
            if a[0] == "guard" and b[0] == "guard" and len(a[1]) == 1 and len(b[1]) == 1 and not a[2] and not b[2]:
                return ("guard", [a[1][0] + "|" + b[1][0]], [])
            return ("other", ctext(c0))
        if k == "BinaryOperator" and c0["opcode"] == "!=" and is_null(c0["inner"][1]):
            v = self.sym(c0["inner"][0], env)     # must be a known path
            if isinstance(v, Path):
                return ("guard", [], [v.text if v.node_of is None else "%s.%s" % (v.node_of, v.which)])
            return ("other", ctext(c0))
        if k in ("DeclRefExpr", "MemberExpr"):
            v = self.sym(c0, env)
            if isinstance(v, Path):
                return ("guard", [], [v.text if v.node_of is None else "%s.%s" % (v.node_of, v.which)])   # `if (value)` on a pointer
            return ("other", ctext(c0))
        if k == "BinaryOperator" and c0["opcode"] == "==":
            l, r = strip(c0["inner"][0]), strip(c0["inner"][1])
            if l.get("kind") == "MemberExpr" and l.get("name") == "type" and r.get("kind") == "DeclRefExpr" and r["referencedDecl"]["kind"] == "EnumConstantDecl":
                return ("guard", [r["referencedDecl"]["name"]], [])
            return ("other", ctext(c0))
        if k == "CallExpr" and callee_name(c0) == "expr_id_tailrec":
            return ("retag", ctext(c0))
        return ("other", ctext(c0))

    # ---- statements
    def walk_fn(self, name, args, ctx):
        """args: dict param name -> symbolic value"""
        if self.depth > 12:
            raise Unrecognised("recursion among the helper functions at %s" % name)
        fn = self.fns[name]
        self.visited.add(name)
        params = [p["name"] for p in fn["inner"] if p.get("kind") == "ParmVarDecl"]
        env = {p: args.get(p) for p in params}
        body = [c for c in fn["inner"] if c.get("kind") == "CompoundStmt"][0]
        self.depth += 1
        self.stmt(body, env, ctx)
        self.depth -= 1

    def stmt(self, s, env, ctx):
        k = s.get("kind")
        if k == "CompoundStmt":
            for c in s.get("inner", []):
                self.stmt(c, env, ctx)
        elif k == "NullStmt":
            pass
        elif k == "DeclStmt":
            for v in s["inner"]:
                if v.get("kind") != "VarDecl":
                    raise Unrecognised("declaration of kind %s" % v.get("kind"))
                env[v["name"]] = self.sym(v["inner"][0], env) if v.get("inner") else None
        elif k == "BinaryOperator" and s["opcode"] == "=":
            lhs = strip(s["inner"][0])
            if lhs.get("kind") == "DeclRefExpr" and lhs["referencedDecl"]["kind"] == "VarDecl":
                env[lhs["referencedDecl"]["name"]] = self.sym(s["inner"][1], env)
            elif lhs.get("kind") == "MemberExpr" and lhs.get("name") == "type" and ctx.get("retag_cond"):
                tgt = self.sym(lhs["inner"][0], env)
                new = self.sym(s["inner"][1], env)
                if not (isinstance(tgt, Path) and tgt.text == "" and isinstance(new, tuple) and new[0] == "const"):
                    raise Unrecognised("assignment to ->type of %r" % (tgt,))
                self.retags.append((ctx["construct"], ctx["retag_cond"], new[1]))
            else:
                raise Unrecognised("assignment to %s" % ctext(lhs))
        elif k == "IfStmt":
            inner = s["inner"]
            cls = self.classify_cond(inner[0], env)
            if cls[0] == "guard" and not cls[1] and len(inner) == 2:
                self.stmt(inner[1], env, ctx)          # a plain null test: transparent
            elif cls[0] == "guard":
                # a discriminating test: both branches are alternatives; the qualifier names the labels and the tested pointers
                q = "&".join(cls[1] + ["has:" + x for x in cls[2]])
                self.stmt(inner[1], dict(env), dict(ctx, quals=ctx["quals"] + (q,)))
                if len(inner) > 2:
                    if inner[2].get("kind") == "IfStmt" and not cls[2]:
                        self.stmt(inner[2], dict(env), ctx)      # else-if chain over ->type: the next discriminator adds its own qualifier
                    else:
                        self.stmt(inner[2], dict(env), dict(ctx, quals=ctx["quals"] + ("else:" + q,)))
            elif cls[0] == "retag":
                if len(inner) > 2:
                    raise Unrecognised("else branch of the retagging test")
                self.stmt(inner[1], env, dict(ctx, retag_cond=cls[1]))
            else:
                raise Unrecognised("condition `%s` in %s" % (cls[1], ctx.get("construct")))
        elif k == "WhileStmt":
            c = strip(s["inner"][0])
            if not (c.get("kind") == "BinaryOperator" and c["opcode"] == "!="):
                raise Unrecognised("loop condition %s" % ctext(c))
            it = strip(c["inner"][0])
            if it.get("kind") != "DeclRefExpr":
                raise Unrecognised("loop condition %s" % ctext(c))
            var = it["referencedDecl"]["name"]
            cur = env.get(var)
            if not (isinstance(cur, Path) and cur.node_of is not None and cur.which == "tail"):
                raise Unrecognised("loop over %s which does not start at the tail of a list" % var)
            if is_null(c["inner"][1]):
                which = "all"
            else:
                stop = self.sym(c["inner"][1], env)
                if not (isinstance(stop, Path) and stop.node_of == cur.node_of and stop.which == "head"):
                    raise Unrecognised("loop bound %s" % ctext(c))
                which = "nothead"
            env2 = dict(env)
            env2[var] = Path(None, node_of=cur.node_of, which=which)
            body = s["inner"][1]
            stmts = body.get("inner", []) if body.get("kind") == "CompoundStmt" else [body]
            if not stmts:
                raise Unrecognised("empty loop")
            last = stmts[-1]
            ok = (last.get("kind") == "BinaryOperator" and last["opcode"] == "=" and strip(last["inner"][0]).get("kind") == "DeclRefExpr"
                  and strip(last["inner"][0])["referencedDecl"]["name"] == var and ctext(last["inner"][1]) == var + "->next")
            if not ok:
                raise Unrecognised("loop over %s does not end with %s = %s->next" % (var, var, var))
            for st in stmts[:-1]:
                self.stmt(st, env2, ctx)
            env[var] = None
        elif k == "SwitchStmt":
            subj = strip(s["inner"][0])
            if not (subj.get("kind") == "MemberExpr" and subj.get("name") == "type"):
                raise Unrecognised("switch on %s" % ctext(subj))
            who = self.sym(subj["inner"][0], env)
            if not isinstance(who, Path):
                raise Unrecognised("switch on the type of %r" % (who,))
            body = s["inner"][1]
            groups, labels, stmts, open_ = [], [], [], False
            def flush():
                nonlocal labels, stmts
                if labels:
                    groups.append((labels, stmts))
                labels, stmts = [], []
            for c in body.get("inner", []):
                node = c
                new_labels = []
                while node.get("kind") in ("CaseStmt", "DefaultStmt"):
                    if node["kind"] == "DefaultStmt":
                        raise Unrecognised("default label in a switch of tailrec.c")
                    lab = strip(node["inner"][0])
                    new_labels.append(lab["referencedDecl"]["name"])
                    node = node["inner"][-1]
                if new_labels:
                    if stmts:
                        raise Unrecognised("fall through into case %s" % new_labels[0])
                    labels += new_labels
                    if node.get("kind") == "BreakStmt":
                        flush()
                    else:
                        stmts.append(node)
                elif c.get("kind") == "BreakStmt":
                    flush()
                else:
                    if not labels:
                        raise Unrecognised("statement outside any case")
                    stmts.append(c)
            flush()
            for labs, sts in groups:
                for lab in labs:
                    if who.text == "" and ctx.get("construct") is None:
                        ctx2 = dict(ctx, construct=lab)
                    else:
                        ctx2 = dict(ctx, quals=ctx["quals"] + (lab,))
                    for st in sts:
                        self.stmt(st, dict(env), ctx2)
        elif k == "ReturnStmt":
            pass
        elif k == "BreakStmt":
            pass
        elif k == "CallExpr":
            self.call(s, env, ctx)
        elif is_assert(s):
            pass
        else:
            raise Unrecognised("statement of kind %s in %s" % (k, ctx.get("construct")))

    def call(self, s, env, ctx):
        name = callee_name(s)
        if name not in self.fns:
            raise Unrecognised("call of %s" % name)
        fn = self.fns[name]
        params = [p["name"] for p in fn["inner"] if p.get("kind") == "ParmVarDecl"]
        actual = s["inner"][1:]
        if len(actual) != len(params):
            raise Unrecognised("arity of the call of %s" % name)
        vals = {}
        for p, a in zip(params, actual):
            v = self.sym(a, env)
            vals[p] = self.opval(v) if p == "op" else v
        construct = ctx.get("construct") or ctx["root"]
        subject = next((vals[p] for p in params if p != "stab" and isinstance(vals[p], Path)), None)
        if subject is None:
            raise Unrecognised("call of %s without a recognisable AST argument" % name)
        if name == "expr_tailrec":
            scope = vals.get("stab")
            self.rows.append((construct, ctx["quals"], subject.text, vals["op"], "inherit" if (isinstance(scope, Path) and scope.text == "$stab") else (scope.text if isinstance(scope, Path) else repr(scope))))
            self.visited.add(name)
        elif name in FRESH:
            # a fresh context: func_tailrec (own body with ADD), modules
            self.rows.append((construct, ctx["quals"], subject.text, "fresh", "-"))
        else:
            self.walk_fn(name, vals, ctx)

def extract(src):
    tu = dump(src)
    w = Walker(tu)
    if "expr_tailrec" not in w.fns:
        raise Unrecognised("expr_tailrec not found")
    # root 1: expr_tailrec, its own switch gives the constructs
    w.walk_fn("expr_tailrec", dict(value=Path(""), op="op", stab=Path("$stab"), syn_level=("sym", "syn_level")), dict(root="EXPR", construct=None, quals=()))
    # root 2: functions
    w.walk_fn("func_tailrec", dict(value=Path(""), syn_level=("sym", "syn_level")), dict(root="FUNC", construct=None, quals=()))
    # root 3: the program
    w.walk_fn("never_tailrec", dict(nev=Path("")), dict(root="NEVER", construct="NEVER", quals=()))
    for plumbing in ("use_tailrec", "use_list_tailrec", "module_decl_tailrec"):
        if plumbing in w.fns:
            w.visited.add(plumbing)
    missing = sorted(set(w.fns) - w.visited - {"expr_id_tailrec"})
    if missing:
        raise Unrecognised("functions of tailrec.c that no root reaches: %s" % ", ".join(missing))
    rule = id_rule(w.fns.get("expr_id_tailrec"))
    labels = case_labels(w.fns["expr_tailrec"])
    return w.rows, w.retags, rule, labels

def case_labels(fn):
    out = []
    def go(n):
        if n.get("kind") == "CaseStmt":
            out.append(strip(n["inner"][0])["referencedDecl"]["name"])
        for c in n.get("inner", []):
            go(c)
    go(fn)
    return out

def id_rule(fn):
    """expr_id_tailrec: the path conditions of every `return <nonzero>`; exactly one is expected"""
    if fn is None:
        raise Unrecognised("expr_id_tailrec not found")
    found = []
    lookups = []
    def go(s, conds):
        k = s.get("kind")
        if k == "CompoundStmt":
            neg = []
            for c in s.get("inner", []):
                go(c, conds + neg)
                # an `if (c) { return … }` without else: what follows runs under !c
                if c.get("kind") == "IfStmt" and len(c["inner"]) == 2 and always_returns(c["inner"][1]):
                    neg = neg + ["!(" + ctext(c["inner"][0]) + ")"]
        elif k == "IfStmt":
            t = ctext(s["inner"][0])
            go(s["inner"][1], conds + [t])
            if len(s["inner"]) > 2:
                go(s["inner"][2], conds + ["!(" + t + ")"])
        elif k == "ReturnStmt":
            v = strip(s["inner"][0])
            if v.get("kind") != "IntegerLiteral":
                raise Unrecognised("expr_id_tailrec returns a non-literal")
            if v["value"] != "0":
                found.append((v["value"], conds))
        elif k == "DeclStmt":
            for v in s["inner"]:
                if v.get("inner"):
                    lookups.append("%s = %s" % (v["name"], ctext(v["inner"][0])))
        else:
            raise Unrecognised("statement of kind %s in expr_id_tailrec" % k)
    def always_returns(s):
        if s.get("kind") == "ReturnStmt":
            return True
        if s.get("kind") == "CompoundStmt" and s.get("inner"):
            return always_returns(s["inner"][-1])
        return False
    go([c for c in fn["inner"] if c.get("kind") == "CompoundStmt"][0], [])
    if len(found) != 1 or found[0][0] != "1":
        raise Unrecognised("expr_id_tailrec: expected exactly one `return 1`, found %r" % (found,))
    return lookups + found[0][1]

def lean_str(s):
    return '"' + s.replace("\\", "\\\\").replace('"', '\\"') + '"'

def render(rows, retags, rule, labels):
    L = []
    L.append("/- GENERATED by gen/tailtab.py from front/tailrec.c (clang-14 AST) — do not edit -/")
    L.append("namespace Never.Gen.TailTab")
    L.append("")
    L.append("/-- what a construct hands to a child as the tail-position flag: its own flag (`op`), TAILREC_OP_SKIP, TAILREC_OP_ADD,")
    L.append("    or nothing at all (`fresh`: the child is a function, visited by func_tailrec with its own flag) -/")
    L.append("inductive Pass | op | skip | add | fresh")
    L.append("  deriving DecidableEq, Repr, Inhabited")
    L.append("")
    L.append("structure Row where")
    L.append("  construct : String        -- `case` label of expr_tailrec / FUNC_TYPE_* of func_tailrec / NEVER")
    L.append("  quals : List String       -- labels of the helper switches / discriminating tests met on the way to the visit")
    L.append("  child : String            -- member path of the visited child; [] every element, [head] last item, [!head] the others")
    L.append("  pass : Pass")
    L.append("  scope : String            -- symbol table handed down: inherit = the caller's, else the member path of the table")
    L.append("  deriving DecidableEq, Repr")
    L.append("")
    L.append("def rows : List Row := [")
    for i, (c, q, ch, p, sc) in enumerate(rows):
        L.append("  { construct := %s, quals := [%s], child := %s, pass := .%s, scope := %s }%s" %
                 (lean_str(c), ", ".join(lean_str(x) for x in q), lean_str(ch), p, lean_str(sc), "," if i + 1 < len(rows) else ""))
    L.append("]")
    L.append("")
    L.append("/-- every `case` label of expr_tailrec, in source order -/")
    L.append("def caseLabels : List String := [%s]" % ", ".join(lean_str(x) for x in labels))
    L.append("")
    L.append("/-- the retagging sites: (construct, condition, new tag) of every `value->type = …` -/")
    L.append("def retags : List (String × String × String) := [")
    L.append(",\n".join("  (%s, %s, %s)" % (lean_str(a), lean_str(b), lean_str(c)) for a, b, c in retags))
    L.append("]")
    L.append("")
    L.append("/-- expr_id_tailrec answers 1 exactly under these conditions (declarations with their initialisers, then the path condition) -/")
    L.append("def idRule : List String := [")
    L.append(",\n".join("  " + lean_str(x) for x in rule))
    L.append("]")
    L.append("")
    L.append("end Never.Gen.TailTab")
    return "\n".join(L) + "\n"

def write(src, out_dir=OUT_DIR):
    rows, retags, rule, labels = extract(src)
    text = render(rows, retags, rule, labels)
    p = os.path.join(out_dir, "TailTab.lean")
    old = open(p).read() if os.path.exists(p) else None
    if old != text:
        with open(p, "w") as fh:
            fh.write(text)
    return dict(rows=len(rows), retags=len(retags), constructs=len(labels))

if __name__ == "__main__":
    src = sys.argv[1] if len(sys.argv) > 1 else os.environ.get("NEVER_REPO", "/repo")
    try:
        print(write(src))
    except Unrecognised as e:
        print("tailtab: UNRECOGNISED SHAPE: %s" % e)
        sys.exit(1)
